"""C12 - value types are immutable values with consistent equality, hashing and ordering.

Model checking over explicit finite alphabets (vf/models/valueref.py is the oracle: every value carries its documented
components as a plain tuple `key`, its timeline position `order` and its calendar `group`):

  algebra        for each of the 17 public value types, an alphabet of 14-22 values - fixed zones: 66, every fixed zone of the tz database included - (separately constructed equal values,
                 neighbours, range ends, same-fields-other-calendar, same-instant-other-offset, Hebrew scriptural months,
                 negative years): ALL ordered pairs get the full operator battery, ALL triples the transitivity /
                 trichotomy / sorted / min / max laws, every value the foreign-type battery.
  immutability   the public surface of each type is introspected (methods, static/class methods taking the type,
                 operator dunders, properties); arguments come from small typed pools; EVERY sequence of <= 2 calls
                 (both on the same operand, and the second call on the result of the first) is executed and the deep
                 state of every operand compared with its baseline (private state first; if that moved, the public
                 observable snapshot - all public properties recursively + repr - decides).  Also: augmented-assignment and
                 reflected operator routes with aliases (second name, list element, dict key), the iterator protocol.
  numeric        every member documented to take a float (Duration factories and * / operators, Instant.from_julian_date)
                 is called with int k and float(k) for a fixed k alphabet: results - and everything one more public call
                 computes from them - must be equal, hash-equal, interchangeable as set/dict keys, identical in all public
                 observations and in their internal numeric representation (also demanded of all equal alphabet pairs).
  clones         every alphabet value through pickle round trip, copy.copy, copy.deepcopy (in-process) and through pickle into a
                 CHILD interpreter with a different heap layout and back (both directions): a clone must be equal to, hash like,
                 be interchangeable as set/dict key with, and show the same observations as the value rebuilt from its components.
"""
from __future__ import annotations

import datetime as _dt
import enum
import inspect
import itertools
import re

import pyoda_time as _p
from pyoda_time import (
    AnnualDate,
    CalendarSystem,
    DateInterval,
    DateTimeZone,
    DateTimeZoneProviders,
    Duration,
    Instant,
    Interval,
    IsoDayOfWeek,
    LocalDate,
    LocalDateTime,
    LocalTime,
    Offset,
    OffsetDate,
    OffsetDateTime,
    OffsetTime,
    Period,
    PeriodUnits,
    YearMonth,
    ZonedDateTime,
)
from pyoda_time.time_zones import ZoneInterval

from vf.core.evidence import Acc, exc_origin
from vf.core.par import pmap
from vf.models import valueref as V
from vf.models.valueref import Entry

LEVEL = "model_checking"
NSD = V.NSD
H = 3600 * 10**9
BIT46 = 2**46

ISO = CalendarSystem.iso
GREG = CalendarSystem.gregorian
JUL = CalendarSystem.julian
HS = CalendarSystem.hebrew_scriptural
HC = CalendarSystem.hebrew_civil
EPOCH = Instant.from_unix_time_ticks(0)


def ins(ns):
    return EPOCH.plus_nanoseconds(ns)


def off(s):
    return Offset.from_seconds(s)


def lt_ns(n):
    return LocalTime.from_nanoseconds_since_midnight(n)


# ------------------------------------------------------------------------------------------------ type descriptors

class TypeInfo:
    def __init__(self, name, cls, keynames, alphabet, observe, ordered=False, static_minmax=False, has_equals=True):
        self.name = name
        self.cls = cls
        self.keynames = keynames
        self.alphabet_fn = alphabet
        self.observe = observe          # real value -> documented components through public properties
        self.ordered = ordered
        self.static_minmax = static_minmax
        self.has_equals = has_equals
        self.entries = None


def E(key, order, group, label, build):
    return Entry(tuple(key), order, group, label, build)


def _date_key(cal, y, m, d):
    return (cal.id, y, m, d)


def _ld(y, m, d, cal=ISO, label=None, build=None):
    return E(_date_key(cal, y, m, d), V.chron(cal.id, y, m, d), cal.id,
             label or "LocalDate(%d,%d,%d,%s)" % (y, m, d, cal.id), build or (lambda: LocalDate(y, m, d, cal)))


def alpha_duration():
    mx, mn = Duration.max_value.to_nanoseconds(), Duration.min_value.to_nanoseconds()
    spec = [
        (0, "Duration.zero", lambda: Duration.zero), (0, "from_nanoseconds(0)", lambda: Duration.from_nanoseconds(0)),
        (1, "Duration.epsilon", lambda: Duration.epsilon), (1, "from_nanoseconds(1)", lambda: Duration.from_nanoseconds(1)),
        (-1, "-epsilon", lambda: -Duration.epsilon),
        (NSD, "from_days(1)", lambda: Duration.from_days(1)), (NSD, "from_hours(24)", lambda: Duration.from_hours(24)),
        (NSD - 1, "from_days(1)-epsilon", lambda: Duration.from_days(1) - Duration.epsilon),
        (-NSD, "from_days(-1)", lambda: Duration.from_days(-1)),
        (-NSD + 1, "from_days(-1)+epsilon", lambda: Duration.from_days(-1) + Duration.epsilon),
        (-NSD - 1, "from_nanoseconds(-NSD-1)", lambda: Duration.from_nanoseconds(-NSD - 1)),
        (100, "from_ticks(1)", lambda: Duration.from_ticks(1)), (100, "from_nanoseconds(100)", lambda: Duration.from_nanoseconds(100)),
        (36 * H, "from_hours(36)", lambda: Duration.from_hours(36)), (36 * H, "from_minutes(2160)", lambda: Duration.from_minutes(2160)),
        (mx, "Duration.max_value", lambda: Duration.max_value), (mn, "Duration.min_value", lambda: Duration.min_value),
        (mx - 1, "max_value-epsilon", lambda: Duration.max_value - Duration.epsilon),
    ]
    return [E((k,), (k,), None, lab, b) for k, lab, b in spec]


def alpha_instant():
    mn = (Instant.min_value - EPOCH).to_nanoseconds()
    mx = (Instant.max_value - EPOCH).to_nanoseconds()
    spec = [
        (0, "from_unix_time_ticks(0)", lambda: Instant.from_unix_time_ticks(0)), (0, "Instant()", lambda: Instant()),
        (0, "from_utc(1970,1,1,0,0)", lambda: Instant.from_utc(1970, 1, 1, 0, 0)),
        (1, "epoch+1ns", lambda: ins(1)), (-1, "epoch-1ns", lambda: ins(-1)),
        (100, "from_unix_time_ticks(1)", lambda: Instant.from_unix_time_ticks(1)), (100, "epoch+100ns", lambda: ins(100)),
        (10**6, "from_unix_time_milliseconds(1)", lambda: Instant.from_unix_time_milliseconds(1)),
        (10**9, "from_unix_time_seconds(1)", lambda: Instant.from_unix_time_seconds(1)),
        (-10**9, "from_unix_time_seconds(-1)", lambda: Instant.from_unix_time_seconds(-1)),
        (NSD - 1, "1970-01-01T23:59:59.999999999", lambda: ins(NSD - 1)), (NSD, "from_utc(1970,1,2,0,0)", lambda: Instant.from_utc(1970, 1, 2, 0, 0)),
        (-NSD, "from_utc(1969,12,31,0,0)", lambda: Instant.from_utc(1969, 12, 31, 0, 0)),
        (mn, "Instant.min_value", lambda: Instant.min_value), (mn + 1, "min_value+1ns", lambda: Instant.min_value.plus_nanoseconds(1)),
        (mx, "Instant.max_value", lambda: Instant.max_value), (mx - 1, "max_value-1ns", lambda: Instant.max_value.plus_nanoseconds(-1)),
    ]
    return [E((k,), (k,), None, lab, b) for k, lab, b in spec]


def alpha_offset():
    spec = [
        (0, "Offset.zero", lambda: Offset.zero), (0, "Offset()", lambda: Offset()),
        (1, "from_seconds(1)", lambda: off(1)), (-1, "from_seconds(-1)", lambda: off(-1)),
        (3600, "from_hours(1)", lambda: Offset.from_hours(1)), (3600, "from_seconds(3600)", lambda: off(3600)),
        (3600, "from_milliseconds(3600000)", lambda: Offset.from_milliseconds(3_600_000)),
        (3600, "from_hours_and_minutes(1,0)", lambda: Offset.from_hours_and_minutes(1, 0)),
        (-3600, "-from_hours(1)", lambda: -Offset.from_hours(1)),
        (19800, "from_hours_and_minutes(5,30)", lambda: Offset.from_hours_and_minutes(5, 30)), (-19800, "from_seconds(-19800)", lambda: off(-19800)),
        (64800, "Offset.max_value", lambda: Offset.max_value), (64800, "from_hours(18)", lambda: Offset.from_hours(18)),
        (-64800, "Offset.min_value", lambda: Offset.min_value), (64799, "from_seconds(64799)", lambda: off(64799)),
        (-64799, "from_seconds(-64799)", lambda: off(-64799)),
    ]
    return [E((k,), (k,), None, lab, b) for k, lab, b in spec]


def alpha_local_date():
    return [
        _ld(-9998, 1, 1), _ld(-1, 12, 31), _ld(0, 1, 1), _ld(1, 1, 1),
        _ld(2000, 2, 29), _ld(2000, 2, 29, ISO, "LocalDate(2000,2,28).plus_days(1)", lambda: LocalDate(2000, 2, 28).plus_days(1)),
        _ld(2000, 3, 1), _ld(9999, 12, 31),
        _ld(2000, 2, 29, GREG), _ld(2000, 3, 1, GREG),
        _ld(2000, 2, 29, JUL), _ld(2000, 2, 16, JUL),
        _ld(5784, 7, 1, HS), _ld(5784, 7, 1, HS, "LocalDate(2023,9,16).with_calendar(HS)", lambda: LocalDate(2023, 9, 16).with_calendar(HS)),
        _ld(5784, 13, 29, HS), _ld(5784, 1, 1, HS), _ld(5784, 6, 29, HS), _ld(5785, 7, 1, HS),
        _ld(5784, 1, 1, HC), _ld(5784, 12, 29, HC),
    ]


def alpha_local_time():
    spec = [
        (0, "LocalTime.midnight", lambda: LocalTime.midnight), (0, "LocalTime(0,0)", lambda: LocalTime(0, 0)),
        (1, "from_ns(1)", lambda: lt_ns(1)), (100, "from_ticks_since_midnight(1)", lambda: LocalTime.from_ticks_since_midnight(1)),
        (100, "from_ns(100)", lambda: lt_ns(100)), (10**6, "LocalTime(0,0,0,1)", lambda: LocalTime(0, 0, 0, 1)),
        (10**6, "from_milliseconds_since_midnight(1)", lambda: LocalTime.from_milliseconds_since_midnight(1)),
        (3723 * 10**9, "LocalTime(1,2,3)", lambda: LocalTime(1, 2, 3)),
        (12 * H - 1, "noon-1ns", lambda: LocalTime.noon.plus_nanoseconds(-1)), (12 * H, "LocalTime.noon", lambda: LocalTime.noon),
        (12 * H, "LocalTime(12,0)", lambda: LocalTime(12, 0)),
        (BIT46 - 1, "from_ns(2^46-1)", lambda: lt_ns(BIT46 - 1)), (BIT46, "from_ns(2^46)", lambda: lt_ns(BIT46)),
        (NSD - 10**9, "LocalTime(23,59,59)", lambda: LocalTime(23, 59, 59)),
        (NSD - 1, "LocalTime.max_value", lambda: LocalTime.max_value), (NSD - 1, "from_ns(NSD-1)", lambda: lt_ns(NSD - 1)),
    ]
    return [E((k,), (k,), None, lab, b) for k, lab, b in spec]


def _ldt(y, m, d, n, cal=ISO, label=None, build=None):
    return E((cal.id, y, m, d, n), V.chron(cal.id, y, m, d) + (n,), cal.id,
             label or "LocalDate(%d,%d,%d,%s)+%dns" % (y, m, d, cal.id, n), build or (lambda: LocalDate(y, m, d, cal) + lt_ns(n)))


def alpha_local_date_time():
    return [
        _ldt(-9998, 1, 1, 0), _ldt(-1, 12, 31, NSD - 1), _ldt(0, 1, 1, 0),
        _ldt(2000, 2, 28, NSD - 1), _ldt(2000, 2, 29, 0, ISO, "LocalDateTime(2000,2,29,0,0)", lambda: LocalDateTime(2000, 2, 29, 0, 0)),
        _ldt(2000, 2, 29, 0, ISO, "LocalDate(2000,2,29).at_midnight()", lambda: LocalDate(2000, 2, 29).at_midnight()),
        _ldt(2000, 2, 29, 1), _ldt(2000, 2, 29, BIT46), _ldt(9999, 12, 31, NSD - 1),
        _ldt(2000, 2, 29, 0, GREG), _ldt(2000, 2, 29, 0, JUL), _ldt(2000, 2, 16, 0, JUL),
        _ldt(5784, 7, 1, 0, HS), _ldt(5784, 6, 29, NSD - 1, HS), _ldt(5784, 1, 1, 12 * H, HS), _ldt(5785, 7, 1, 0, HS),
        _ldt(5784, 1, 1, 0, HC),
    ]


def _ym(y, m, cal=ISO, label=None, build=None):
    return E((cal.id, y, m), V.chron(cal.id, y, m), cal.id, label or "YearMonth(%d,%d,%s)" % (y, m, cal.id),
             build or (lambda: YearMonth(year=y, month=m, calendar=cal)))


def alpha_year_month():
    return [
        _ym(-9998, 1), _ym(-1, 12), _ym(0, 1), _ym(2000, 2), _ym(2000, 2, ISO, "LocalDate(2000,2,29).to_year_month()", lambda: LocalDate(2000, 2, 29).to_year_month()),
        _ym(2000, 3), _ym(9999, 12), _ym(2000, 2, GREG), _ym(2000, 2, JUL),
        _ym(5784, 7, HS), _ym(5784, 7, HS, "LocalDate(5784,7,15,HS).to_year_month()", lambda: LocalDate(5784, 7, 15, HS).to_year_month()),
        _ym(5784, 13, HS), _ym(5784, 1, HS), _ym(5784, 6, HS), _ym(5785, 7, HS), _ym(5784, 1, HC), _ym(5784, 13, HC),
    ]


def alpha_annual_date():
    spec = [(1, 1, "AnnualDate()", lambda: AnnualDate()), (1, 1, None, None), (1, 2, None, None), (1, 31, None, None), (2, 1, None, None),
            (2, 28, None, None), (2, 29, None, None), (2, 29, "AnnualDate(month=2,day=29)", lambda: AnnualDate(month=2, day=29)),
            (3, 1, None, None), (6, 15, None, None), (7, 4, None, None), (12, 30, None, None), (12, 31, None, None),
            (12, 31, "AnnualDate(day=31,month=12)", lambda: AnnualDate(day=31, month=12))]
    out = []
    for m, d, lab, b in spec:
        out.append(E((m, d), (m, d), None, lab or "AnnualDate(%d,%d)" % (m, d), b or (lambda m=m, d=d: AnnualDate(m, d))))
    return out


def alpha_offset_date():
    def od(y, m, d, cal, o, label=None, build=None):
        return E((cal.id, y, m, d, o), None, None, label or "OffsetDate(LocalDate(%d,%d,%d,%s),%+ds)" % (y, m, d, cal.id, o),
                 build or (lambda: OffsetDate(LocalDate(y, m, d, cal), off(o))))
    return [
        od(2000, 2, 29, ISO, 0), od(2000, 2, 29, ISO, 0, "LocalDate.with_offset", lambda: LocalDate(2000, 2, 29).with_offset(Offset.zero)),
        od(2000, 2, 29, ISO, 3600), od(2000, 2, 29, ISO, 3600, "OffsetDateTime.to_offset_date", lambda: OffsetDateTime(LocalDateTime(2000, 2, 29, 5, 6), off(3600)).to_offset_date()),
        od(2000, 2, 29, ISO, -3600), od(2000, 2, 29, ISO, 64800), od(2000, 2, 29, ISO, -64800), od(2000, 2, 29, ISO, 1),
        od(2000, 3, 1, ISO, 0), od(2000, 2, 29, GREG, 0), od(2000, 2, 16, JUL, 0), od(2000, 2, 29, JUL, 3600),
        od(5784, 7, 1, HS, 0), od(5784, 1, 1, HC, 0), od(-9998, 1, 1, ISO, -64800), od(9999, 12, 31, ISO, 64800),
        od(1, 1, 1, ISO, 0, "OffsetDate()", lambda: OffsetDate()), od(1, 1, 1, ISO, 0),
    ]


def alpha_offset_time():
    def ot(n, o, label=None, build=None):
        return E((n, o), None, None, label or "OffsetTime(%dns,%+ds)" % (n, o), build or (lambda: OffsetTime(lt_ns(n), off(o))))
    return [
        ot(0, 0), ot(0, 0, "LocalTime.midnight.with_offset(zero)", lambda: LocalTime.midnight.with_offset(Offset.zero)),
        ot(0, 3600), ot(0, -3600), ot(0, -1), ot(1, 0), ot(12 * H, 0), ot(13 * H, 3600),
        ot(13 * H, 3600, "OffsetDateTime.to_offset_time", lambda: OffsetDateTime(LocalDateTime(2000, 2, 29, 13, 0), off(3600)).to_offset_time()),
        ot(BIT46, 0), ot(BIT46, -64800), ot(BIT46 - 1, -64800), ot(NSD - 1, 64800), ot(NSD - 1, -64800),
        ot(NSD - 1, -64800, "LocalTime.max_value.with_offset(min)", lambda: LocalTime.max_value.with_offset(Offset.min_value)), ot(NSD - 1, 0),
    ]


def alpha_offset_date_time():
    def odt(y, m, d, n, cal, o, label=None, build=None):
        return E((cal.id, y, m, d, n, o), None, None, label or "OffsetDateTime(%d-%d-%d %s +%dns, %+ds)" % (y, m, d, cal.id, n, o),
                 build or (lambda: OffsetDateTime(LocalDate(y, m, d, cal) + lt_ns(n), off(o))))
    noon = 951_825_600 * 10**9   # 2000-02-29T12:00:00Z
    return [
        odt(2000, 2, 29, 12 * H, ISO, 0), odt(2000, 2, 29, 12 * H, ISO, 0, "Instant.with_offset(zero)", lambda: ins(noon).with_offset(Offset.zero)),
        odt(2000, 2, 29, 12 * H, ISO, 0, "LocalDateTime.with_offset(zero)", lambda: LocalDateTime(2000, 2, 29, 12, 0).with_offset(Offset.zero)),
        odt(2000, 2, 29, 13 * H, ISO, 3600, "same instant at +1h", lambda: ins(noon).with_offset(off(3600))),
        odt(2000, 3, 1, 6 * H, ISO, 64800, "same instant at +18h", lambda: ins(noon).with_offset(off(64800))),
        odt(2000, 2, 28, 18 * H, ISO, -64800, "same instant at -18h", lambda: ins(noon).with_offset(off(-64800))),
        odt(2000, 2, 29, 12 * H, ISO, 3600), odt(2000, 2, 29, 12 * H, ISO, -1), odt(2000, 2, 29, 12 * H + 1, ISO, 0),
        odt(2000, 2, 29, 12 * H, GREG, 0), odt(2000, 2, 29, 12 * H, GREG, 0, "Instant.with_offset(zero, Gregorian)", lambda: ins(noon).with_offset(Offset.zero, GREG)),
        odt(2000, 2, 16, 12 * H, JUL, 0, "Instant.with_offset(zero, Julian)", lambda: ins(noon).with_offset(Offset.zero, JUL)), odt(2000, 2, 29, 12 * H, JUL, 0),
        odt(5784, 7, 1, 0, HS, 0), odt(5784, 1, 1, 0, HC, 0), odt(2000, 2, 29, BIT46, ISO, -64800),
        odt(1, 1, 1, 0, ISO, 0, "OffsetDateTime()", lambda: OffsetDateTime()),
    ]


def alpha_zoned_date_time():
    tz = DateTimeZoneProviders.tzdb
    london = tz["Europe/London"]
    gmt1 = tz["Etc/GMT-1"]
    utc = DateTimeZone.utc
    jan = Instant.from_utc(2024, 1, 15, 12, 0)
    jul = Instant.from_utc(2024, 7, 15, 12, 0)

    def z(cal, y, m, d, n, o, zid, label, build):
        return E((cal.id, y, m, d, n, o, zid), None, None, label, build)
    amb = LocalDateTime(2023, 10, 29, 1, 30)
    out = [
        z(ISO, 2024, 1, 15, 12 * H, 0, "Europe/London", "jan.in_zone(London)", lambda: jan.in_zone(london)),
        z(ISO, 2024, 1, 15, 12 * H, 0, "Europe/London", "ZonedDateTime(local, London, +0)",
          lambda: ZonedDateTime(local_date_time=LocalDateTime(2024, 1, 15, 12, 0), zone=london, offset=Offset.zero)),
        z(ISO, 2024, 1, 15, 12 * H, 0, "UTC|UTC", "jan.in_utc()", lambda: jan.in_utc()),
        z(ISO, 2024, 1, 15, 12 * H, 0, "UTC|UTC", "ZonedDateTime(jan, utc)", lambda: ZonedDateTime(instant=jan, zone=utc)),
        z(GREG, 2024, 1, 15, 12 * H, 0, "Europe/London", "jan.in_zone(London, Gregorian)", lambda: jan.in_zone(london, GREG)),
        z(ISO, 2023, 10, 29, H + H // 2, 3600, "Europe/London", "ambiguous 01:30 +1", lambda: ZonedDateTime(local_date_time=amb, zone=london, offset=off(3600))),
        z(ISO, 2023, 10, 29, H + H // 2, 0, "Europe/London", "ambiguous 01:30 +0", lambda: ZonedDateTime(local_date_time=amb, zone=london, offset=Offset.zero)),
        z(ISO, 2024, 7, 15, 13 * H, 3600, "Europe/London", "jul.in_zone(London)", lambda: jul.in_zone(london)),
        z(ISO, 2024, 7, 15, 13 * H, 3600, "UTC+01|UTC+01", "jul.with_offset(+1).in_fixed_zone()", lambda: jul.with_offset(off(3600)).in_fixed_zone()),
        z(ISO, 2024, 7, 15, 13 * H, 3600, "UTC+01|UTC+01", "jul.in_zone(for_offset(+1))", lambda: jul.in_zone(DateTimeZone.for_offset(off(3600)))),
        z(ISO, 2024, 7, 15, 13 * H, 3600, "Etc/GMT-1|+01", "jul.in_zone(Etc/GMT-1)", lambda: jul.in_zone(gmt1)),
        z(ISO, 2024, 7, 15, 12 * H + 10**9, 1, "UTC+00:00:01|UTC+00:00:01", "jul.in_zone(for_offset(+1s)) #1", lambda: jul.in_zone(DateTimeZone.for_offset(off(1)))),
        z(ISO, 2024, 7, 15, 12 * H + 10**9, 1, "UTC+00:00:01|UTC+00:00:01", "jul.in_zone(for_offset(+1s)) #2", lambda: jul.in_zone(DateTimeZone.for_offset(off(1)))),
        z(JUL, 2024, 7, 2, 13 * H, 3600, "Europe/London", "jul.in_zone(London, Julian)", lambda: jul.in_zone(london, JUL)),
        z(ISO, 2024, 7, 15, 13 * H + 1, 3600, "Europe/London", "jul+1ns in London", lambda: jul.plus_nanoseconds(1).in_zone(london)),
    ]
    # the same instant in fixed zones that share offset and name but not the id (and the other way round)
    for zid, name in (("UTC", "UTC"), ("Etc/UTC", "UTC"), ("UCT", "UTC"), ("Etc/GMT", "GMT"), ("GMT", "GMT")):
        out.append(z(ISO, 2024, 1, 15, 12 * H, 0, "%s|%s" % (zid, name), "jan.in_zone(tzdb[%r])" % zid, lambda zid=zid: jan.in_zone(tz[zid])))
    out.append(z(ISO, 2024, 1, 15, 12 * H, 0, "Etc/UTC|UTC", "ZonedDateTime(jan, tzdb['Etc/UTC'])", lambda: ZonedDateTime(instant=jan, zone=tz["Etc/UTC"])))
    try:
        from pyoda_time.time_zones._fixed_date_time_zone import _FixedDateTimeZone
        _FixedDateTimeZone(off(3600), "Foo", "Bar")
        out.append(z(ISO, 2024, 7, 15, 13 * H, 3600, "Foo|UTC+01", "jul.in_zone(_FixedDateTimeZone(+1h,'Foo','UTC+01'))",
                     lambda: jul.in_zone(_FixedDateTimeZone(off(3600), "Foo", "UTC+01"))))
        out.append(z(ISO, 2024, 7, 15, 13 * H, 3600, "UTC+01|Other name", "jul.in_zone(_FixedDateTimeZone(+1h,'UTC+01','Other name'))",
                     lambda: jul.in_zone(_FixedDateTimeZone(off(3600), "UTC+01", "Other name"))))
    except Exception:  # noqa: BLE001
        pass
    return out


def alpha_interval():
    mn = (Instant.min_value - EPOCH).to_nanoseconds()
    mx = (Instant.max_value - EPOCH).to_nanoseconds()

    def iv(s, e, label=None, build=None):
        return E((s, e), None, None, label or "Interval(%r,%r)" % (s, e),
                 build or (lambda: Interval(None if s is None else ins(s), None if e is None else ins(e))))
    return [
        iv(None, None), iv(None, None, "Interval(start=None,end=None)", lambda: Interval(start=None, end=None)),
        iv(None, 0), iv(0, None), iv(0, 0), iv(0, 0, "Interval()", lambda: Interval()), iv(0, 1), iv(-1, 0), iv(-1, 1), iv(0, NSD),
        iv(0, NSD, "Interval(from_unix_time_ticks(0), from_utc(1970,1,2,0,0))", lambda: Interval(Instant.from_unix_time_ticks(0), Instant.from_utc(1970, 1, 2, 0, 0))),
        iv(mn, mx), iv(mn, None), iv(None, mx), iv(1, 1),
    ]


def alpha_date_interval():
    def di(cal, a, b, label=None, build=None):
        return E((cal.id,) + a + b, None, None, label or "DateInterval(%s %r..%r)" % (cal.id, a, b),
                 build or (lambda: DateInterval(LocalDate(a[0], a[1], a[2], cal), LocalDate(b[0], b[1], b[2], cal))))
    return [
        di(ISO, (2000, 2, 28), (2000, 3, 1)), di(ISO, (2000, 2, 28), (2000, 3, 1), "YearMonth-free second build",
                                                  lambda: DateInterval(LocalDate(2000, 2, 29).plus_days(-1), LocalDate(2000, 2, 29).plus_days(1))),
        di(ISO, (2000, 2, 29), (2000, 2, 29)), di(ISO, (2000, 2, 29), (2000, 3, 1)), di(ISO, (2000, 2, 28), (2000, 2, 29)),
        di(ISO, (2000, 2, 1), (2000, 2, 29), "YearMonth(2000,2).to_date_interval()", lambda: YearMonth(year=2000, month=2).to_date_interval()),
        di(ISO, (2000, 2, 1), (2000, 2, 29)),
        di(GREG, (2000, 2, 28), (2000, 3, 1)), di(JUL, (2000, 2, 28), (2000, 3, 1)), di(JUL, (2000, 2, 15), (2000, 2, 17)),
        di(HS, (5784, 6, 29), (5785, 7, 1)), di(HS, (5784, 7, 1), (5784, 6, 29)), di(HC, (5784, 1, 1), (5784, 12, 29)),
        di(ISO, (-9998, 1, 1), (9999, 12, 31)),
    ]


PERIOD_FIELDS = ("years", "months", "weeks", "days", "hours", "minutes", "seconds", "milliseconds", "ticks", "nanoseconds")


def alpha_period():
    def pk(**kw):
        return tuple(kw.get(f, 0) for f in PERIOD_FIELDS)

    def builder_route():
        b = Period.from_days(1).to_builder()
        b.hours = 1
        return b.build()
    spec = [
        (pk(), "Period.zero", lambda: Period.zero), (pk(), "from_days(0)", lambda: Period.from_days(0)),
        (pk(days=1), "from_days(1)", lambda: Period.from_days(1)), (pk(days=1), "from_days(2)-from_days(1)", lambda: Period.from_days(2) - Period.from_days(1)),
        (pk(hours=24), "from_hours(24)", lambda: Period.from_hours(24)), (pk(weeks=1), "from_weeks(1)", lambda: Period.from_weeks(1)),
        (pk(days=7), "from_days(7)", lambda: Period.from_days(7)), (pk(months=12), "from_months(12)", lambda: Period.from_months(12)),
        (pk(years=1), "from_years(1)", lambda: Period.from_years(1)), (pk(hours=1), "from_hours(1)", lambda: Period.from_hours(1)),
        (pk(minutes=60), "from_minutes(60)", lambda: Period.from_minutes(60)), (pk(seconds=3600), "from_seconds(3600)", lambda: Period.from_seconds(3600)),
        (pk(nanoseconds=100), "from_nanoseconds(100)", lambda: Period.from_nanoseconds(100)), (pk(ticks=1), "from_ticks(1)", lambda: Period.from_ticks(1)),
        (pk(milliseconds=1), "from_milliseconds(1)", lambda: Period.from_milliseconds(1)),
        (pk(days=1, hours=1), "from_days(1)+from_hours(1)", lambda: Period.from_days(1) + Period.from_hours(1)),
        (pk(days=1, hours=1), "from_hours(1)+from_days(1)", lambda: Period.from_hours(1) + Period.from_days(1)),
        (pk(days=1, hours=1), "builder route", builder_route),
        (pk(days=-1), "from_days(-1)", lambda: Period.from_days(-1)),
    ]
    return [E(k, None, None, lab, b) for k, lab, b in spec]


def alpha_zone_interval():
    def zi(name, s, e, w, sv, label=None, build=None):
        return E((name, s, e, w, sv), None, None, label or "ZoneInterval(%r,%r,%r,%+d,%+d)" % (name, s, e, w, sv),
                 build or (lambda: ZoneInterval(name=name, start=None if s is None else ins(s), end=None if e is None else ins(e),
                                                wall_offset=off(w), savings=off(sv))))
    return [
        zi("UTC", None, None, 0, 0), zi("UTC", None, None, 0, 0, "DateTimeZone.utc.get_zone_interval(epoch)", lambda: DateTimeZone.utc.get_zone_interval(EPOCH)),
        zi("X", None, None, 0, 0), zi("X", 0, None, 0, 0), zi("X", None, 0, 0, 0), zi("X", 0, NSD, 0, 0), zi("X", 0, NSD, 0, 0),
        zi("X", 0, NSD, 3600, 0), zi("X", 0, NSD, 3600, 3600), zi("X", 0, NSD, 0, 3600), zi("X", 0, NSD, -3600, 0), zi("Y", 0, NSD, 0, 0),
        zi("X", 1, NSD, 0, 0), zi("X", 0, NSD + 1, 0, 0), zi("x", 0, NSD, 0, 0),
    ]


def fixed_id(seconds):
    if seconds == 0:
        return "UTC"
    s = abs(seconds)
    h, m, sec = s // 3600, (s // 60) % 60, s % 60
    txt = "%02d" % h
    if m or sec:
        txt += ":%02d" % m
    if sec:
        txt += ":%02d" % sec
    return "UTC" + ("+" if seconds > 0 else "-") + txt


HARNESS_NOTES = []


def stored_fixed_zones():
    """[(id, offset seconds, name)] for every id of the bundled tz database that denotes a fixed zone, decoded from the
    file bytes by the independent decoder vf/models/nzdref.py (aliases take offset and name of their canonical zone)."""
    import os

    import pyoda_time.time_zones as tzpkg

    from vf.models import nzdref
    path = os.path.join(os.path.dirname(tzpkg.__file__), "Tzdb.nzd")
    with open(path, "rb") as fh:
        f = nzdref.parse_file(fh.read())
    cmap = nzdref.canonical_map(f)
    out = []
    for zid in nzdref.all_ids(f):
        z = f["zones"][cmap[zid]]
        if z["kind"] == "fixed":
            out.append((zid, z["offset"], z["name"] if z["name"] is not None else zid))
    return out


def _stored_or_observed():
    try:
        return stored_fixed_zones()
    except Exception as x:  # noqa: BLE001
        HARNESS_NOTES.append("fixed zones of the tz database could not be decoded independently (%s: %s); a small observed list is used"
                             % (type(x).__name__, str(x)[:80]))
        return [("UTC", 0, "UTC"), ("Etc/UTC", 0, "UTC"), ("UCT", 0, "UTC"), ("Etc/GMT", 0, "GMT"), ("GMT", 0, "GMT"), ("Etc/GMT-1", 3600, "+01")]


def alpha_fixed_zone():
    """model key = (offset, id, name).  Sources: every fixed zone of the tzdb provider, DateTimeZone.utc, for_offset zones
    (cached and uncached offsets, built twice), and directly constructed zones differing from for_offset(+1h) in exactly one
    of offset / id / name."""
    tz = DateTimeZoneProviders.tzdb

    def fz(o, i, name, label, build):
        return E((o, i, name), None, None, label, build)

    def fo(o, label=None):
        i = fixed_id(o)
        return fz(o, i, i, label or "DateTimeZone.for_offset(%+ds)" % o, lambda: DateTimeZone.for_offset(off(o)))
    out = [fz(0, "UTC", "UTC", "DateTimeZone.utc", lambda: DateTimeZone.utc)]
    out += [fo(0), fo(1), fo(1, "for_offset(+1s) again"), fo(-1), fo(3600), fo(3600, "for_offset(+1h) again"), fo(-3600), fo(19800), fo(64800), fo(-64800), fo(45901)]
    for zid, o, name in _stored_or_observed():
        out.append(fz(o, zid, name, "tzdb[%r]" % zid, lambda zid=zid: tz[zid]))
    try:
        from pyoda_time.time_zones._fixed_date_time_zone import _FixedDateTimeZone
        _FixedDateTimeZone(off(3600), "Foo", "Bar")
        out += [
            fz(3600, "UTC+01", "UTC+01", "_FixedDateTimeZone(+1h, 'UTC+01', 'UTC+01')", lambda: _FixedDateTimeZone(off(3600), "UTC+01", "UTC+01")),
            fz(7200, "UTC+01", "UTC+01", "_FixedDateTimeZone(+2h, 'UTC+01', 'UTC+01') [offset differs]", lambda: _FixedDateTimeZone(off(7200), "UTC+01", "UTC+01")),
            fz(3600, "Foo", "UTC+01", "_FixedDateTimeZone(+1h, 'Foo', 'UTC+01') [id differs]", lambda: _FixedDateTimeZone(off(3600), "Foo", "UTC+01")),
            fz(3600, "UTC+01", "Other name", "_FixedDateTimeZone(+1h, 'UTC+01', 'Other name') [name differs]", lambda: _FixedDateTimeZone(off(3600), "UTC+01", "Other name")),
            fz(3600, "Foo", "Foo", "_FixedDateTimeZone(+1h, 'Foo')", lambda: _FixedDateTimeZone(off(3600), "Foo")),
            fz(3600, "Foo", "Foo", "_FixedDateTimeZone(+1h, 'Foo', 'Foo')", lambda: _FixedDateTimeZone(off(3600), "Foo", "Foo")),
            fz(3600, "UTC+01", "UTC+01", "_FixedDateTimeZone(+1h)", lambda: _FixedDateTimeZone(off(3600))),
        ]
    except Exception:  # noqa: BLE001
        HARNESS_NOTES.append("_FixedDateTimeZone constructor not reachable; directly constructed fixed zones left out")
    return out


def _zone_obs(zone):
    """Zone component of a ZonedDateTime: id, and for fixed zones id|name (two fixed zones are the same zone only when offset,
    id and name agree; the offset is already a component of the value)."""
    n = getattr(zone, "name", None)
    return zone.id if not isinstance(n, str) else "%s|%s" % (zone.id, n)


def _ns_of(i):
    return None if i is None else (i - EPOCH).to_nanoseconds()


def _date_obs(d):
    return (d.calendar.id, d.year, d.month, d.day)


TYPES = [
    TypeInfo("Duration", Duration, ("nanoseconds",), alpha_duration, lambda v: (v.to_nanoseconds(),), True, True),
    TypeInfo("Instant", Instant, ("nanoseconds",), alpha_instant, lambda v: ((v - EPOCH).to_nanoseconds(),), True, True),
    TypeInfo("Offset", Offset, ("seconds",), alpha_offset, lambda v: (v.seconds,), True, True),
    TypeInfo("LocalDate", LocalDate, ("calendar", "year", "month", "day"), alpha_local_date, _date_obs, True, True, has_equals=False),
    TypeInfo("LocalTime", LocalTime, ("nanosecond_of_day",), alpha_local_time, lambda v: (v.nanosecond_of_day,), True, True, has_equals=False),
    TypeInfo("LocalDateTime", LocalDateTime, ("calendar", "year", "month", "day", "nanosecond_of_day"), alpha_local_date_time,
             lambda v: _date_obs(v) + (v.nanosecond_of_day,), True, True),
    TypeInfo("YearMonth", YearMonth, ("calendar", "year", "month"), alpha_year_month, lambda v: (v.calendar.id, v.year, v.month), True, False),
    TypeInfo("AnnualDate", AnnualDate, ("month", "day"), alpha_annual_date, lambda v: (v.month, v.day), True, False),
    TypeInfo("OffsetDate", OffsetDate, ("calendar", "year", "month", "day", "offset"), alpha_offset_date, lambda v: _date_obs(v) + (v.offset.seconds,)),
    TypeInfo("OffsetTime", OffsetTime, ("nanosecond_of_day", "offset"), alpha_offset_time, lambda v: (v.nanosecond_of_day, v.offset.seconds)),
    TypeInfo("OffsetDateTime", OffsetDateTime, ("calendar", "year", "month", "day", "nanosecond_of_day", "offset"), alpha_offset_date_time,
             lambda v: _date_obs(v) + (v.nanosecond_of_day, v.offset.seconds)),
    TypeInfo("ZonedDateTime", ZonedDateTime, ("calendar", "year", "month", "day", "nanosecond_of_day", "offset", "zone"), alpha_zoned_date_time,
             lambda v: _date_obs(v) + (v.time_of_day.nanosecond_of_day, v.offset.seconds, _zone_obs(v.zone)), has_equals=False),
    TypeInfo("Interval", Interval, ("start", "end"), alpha_interval,
             lambda v: (_ns_of(v.start) if v.has_start else None, _ns_of(v.end) if v.has_end else None)),
    TypeInfo("DateInterval", DateInterval, ("calendar", "start_year", "start_month", "start_day", "end_year", "end_month", "end_day"), alpha_date_interval,
             lambda v: (v.calendar.id, v.start.year, v.start.month, v.start.day, v.end.year, v.end.month, v.end.day)),
    TypeInfo("Period", Period, PERIOD_FIELDS, alpha_period, lambda v: tuple(getattr(v, f) for f in PERIOD_FIELDS)),
    TypeInfo("ZoneInterval", ZoneInterval, ("name", "start", "end", "wall_offset", "savings"), alpha_zone_interval,
             lambda v: (v.name, _ns_of(v.start) if v.has_start else None, _ns_of(v.end) if v.has_end else None, v.wall_offset.seconds, v.savings.seconds)),
    TypeInfo("FixedZone", None, ("offset", "id", "name"), alpha_fixed_zone, lambda v: (v.offset.seconds, v.id, v.name)),
]
TYPE_BY_NAME = {t.name: t for t in TYPES}

_BUILT = False
BUILD_FAILURES = []       # (type name, label, exception) - reported by the algebra worker of that type


def build_all():
    """Build every alphabet (once per process; workers inherit through fork).  A value that cannot be built (the library
    raised on a valid construction) is dropped from the alphabet and reported as a violation of its type."""
    global _BUILT
    if _BUILT:
        return
    for T in TYPES:
        try:
            ents = T.alphabet_fn()
        except Exception as x:  # noqa: BLE001
            if exc_origin(x) == "harness":
                raise
            BUILD_FAILURES.append((T.name, "<alphabet>", x))
            ents = []
        T.entries = []
        for e in ents:
            try:
                e.value = e.build()
            except Exception as x:  # noqa: BLE001
                if exc_origin(x) == "harness":
                    raise
                BUILD_FAILURES.append((T.name, e.label, x))
                continue
            T.entries.append(e)
        if T.cls is None and T.entries:
            T.cls = type(T.entries[0].value)
        if T.cls is None:
            from pyoda_time.time_zones._fixed_date_time_zone import _FixedDateTimeZone
            T.cls = _FixedDateTimeZone
        T.has_equals = hasattr(T.cls, "equals")
        T.has_compare_to = hasattr(T.cls, "compare_to")
        T.static_minmax = T.ordered and all(hasattr(T.cls, n) for n in ("min", "max")) and not isinstance(inspect.getattr_static(T.cls, "min"), property)
    _BUILT = True


_LONDON = []


def london_or_none():
    """The tzdb London zone, or None when the provider cannot load it (that failure belongs to the ZonedDateTime alphabet)."""
    if not _LONDON:
        try:
            _LONDON.append(DateTimeZoneProviders.tzdb["Europe/London"])
        except Exception as x:  # noqa: BLE001
            if exc_origin(x) == "harness":
                raise
            _LONDON.append(None)
    return _LONDON[0]


def foreign_values():
    """Objects of unrelated types: primitives and one value of every pyoda type."""
    out = [("None", None), ("int 0", 0), ("int 1", 1), ("float", 1.5), ("str", "x"), ("object()", object()), ("tuple", (1,)),
           ("CalendarSystem.iso", ISO), ("IsoDayOfWeek.MONDAY", IsoDayOfWeek.MONDAY)]
    if london_or_none() is not None:
        out.append(("tzdb London", london_or_none()))
    for T in TYPES:
        if T.entries:
            out.append((T.name, T.entries[min(2, len(T.entries) - 1)].value))
    return out


# ------------------------------------------------------------------------------------------------ algebra part

OPS = {"lt": lambda a, b: a < b, "le": lambda a, b: a <= b, "gt": lambda a, b: a > b, "ge": lambda a, b: a >= b}


def _diff_class(T, a, b):
    if a.key == b.key:
        return "equal-components"
    names = [T.keynames[i] if i < len(T.keynames) else "c%d" % i for i in range(len(a.key)) if a.key[i] != b.key[i]]
    return "differ:" + "+".join(names[:3])


def _case(T, *entries):
    return {"type": T.name, "values": [e.label for e in entries], "keys": [list(e.key) for e in entries]}


def _guarded(part, tname, fn, args):
    """An exception escaping from library code at an unguarded point (e.g. while building argument pools) becomes a violation
    of this shard instead of a harness fault; the rest of the shard is recorded as cut short."""
    acc = Acc()
    try:
        return fn(args, acc)
    except Exception as x:  # noqa: BLE001
        if exc_origin(x) == "harness":
            raise
        acc.lib_exception("C12/%s/%s-aborted" % (tname, part), x, {"type": tname, "shard": repr(args)[:200]})
        acc.cap("a %s shard stopped early on an unexpected library exception" % part)
        return acc


def algebra_worker(tname):
    return _guarded("algebra", tname, _algebra_worker, tname)


def _algebra_worker(tname, acc):
    build_all()
    T = TYPE_BY_NAME[tname]
    ents = T.entries
    n = len(ents)
    P = "C12/%s" % T.name
    acc.note("alphabet %s" % T.name, {"values": n, "distinct keys": len({e.key for e in ents}), "calendars": sorted({e.group for e in ents if e.group}),
                                      "ordered": T.ordered, "static min/max": T.static_minmax})
    for tn, label, x in BUILD_FAILURES:
        if tn == T.name:
            acc.lib_exception("%s/build" % P, x, {"type": T.name, "values": [label]})
    if not ents:
        return acc
    # 0. the built values have the components asked for; hashing
    hashable = True
    for e in ents:
        acc.count(states=1, evaluations=1)
        try:
            got = tuple(T.observe(e.value))
        except Exception as x:  # noqa: BLE001
            acc.lib_exception("%s/observe" % P, x, _case(T, e))
            continue
        if got != e.key:
            acc.violation("%s/components/%s" % (P, e.label), "%s built as %s shows components %r, asked for %r" % (T.name, e.label, got, e.key), _case(T, e))
        try:
            h1, h2 = hash(e.value), hash(e.value)
            if h1 != h2 or not isinstance(h1, int):
                acc.violation("%s/hash-stable" % P, "hash(%s) gives %r then %r" % (e.label, h1, h2), _case(T, e))
        except TypeError:
            hashable = False
        except Exception as x:  # noqa: BLE001
            acc.lib_exception("%s/hash" % P, x, _case(T, e))
    acc.outcome("%s: %s" % (T.name, "hashable" if hashable else "defines == without hash (unhashable): hash laws not applicable"))
    # 1. all ordered pairs
    for a in ents:
        for b in ents:
            acc.count(transitions=1)
            _pair(acc, T, P, a, b, hashable)
    # 2. sets / dicts
    if hashable:
        acc.count(evaluations=2)
        try:
            s = set(e.value for e in ents)
            want = len({e.key for e in ents})
            if len(s) != want:
                acc.violation("%s/set-dict/set-size" % P, "set of the %d alphabet values has %d members, %d distinct component tuples" % (n, len(s), want), {"type": T.name})
            d = {}
            for e in ents:
                d.setdefault(e.value, e.key)
            for e in ents:
                if d.get(e.value) != e.key:
                    acc.violation("%s/set-dict/lookup" % P, "dict lookup with %s finds the entry of key %r" % (e.label, d.get(e.value)), _case(T, e))
        except Exception as x:  # noqa: BLE001
            acc.lib_exception("%s/set-dict" % P, x, {"type": T.name})
    # 3. all triples
    vals = [e.value for e in ents]
    for a in range(n):
        ea, va = ents[a], vals[a]
        for b in range(n):
            eb, vb = ents[b], vals[b]
            for c in range(n):
                ec, vc = ents[c], vals[c]
                acc.count(states=1, transitions=1)
                _triple(acc, T, P, ea, eb, ec, va, vb, vc)
    # 4. foreign types
    for e in ents:
        for fname, f in foreign_values():
            if fname == T.name:
                continue
            acc.count(transitions=1)
            _foreign(acc, T, P, e, fname, f)
    # 5. whole-alphabet sort per calendar group
    if T.ordered:
        groups = {}
        for e in ents:
            groups.setdefault(e.group, []).append(e)
        for g, es in sorted(groups.items(), key=lambda kv: str(kv[0])):
            for perm in (es, es[::-1], es[1::2] + es[0::2]):
                acc.count(evaluations=1)
                try:
                    got = [tuple(T.observe(v)) for v in sorted(x.value for x in perm)]
                except Exception as x:  # noqa: BLE001
                    acc.lib_exception("%s/sorted" % P, x, {"type": T.name, "group": g})
                    continue
                want = [x.key for x in sorted(perm, key=lambda x: x.order)]
                if got != want:
                    acc.violation("%s/sorted/%s" % (P, g or "all"), "sorted() of %d values gives %r, timeline order is %r" % (len(perm), got, want), {"type": T.name, "group": g})
    acc.sample({"type": T.name, "alphabet": [e.label for e in ents][:6], "pairs": n * n, "triples": n ** 3})
    return acc


def _bool(acc, P, law, cls, what, case, fn):
    """Evaluate fn() -> must be a real bool; returns it or None (violation recorded)."""
    acc.count(evaluations=1)
    try:
        r = fn()
    except Exception as x:  # noqa: BLE001
        if exc_origin(x) == "harness" and not isinstance(x, TypeError):     # the interpreter's own "not supported between" TypeError
            raise
        acc.violation("%s/%s/raises/%s" % (P, law, cls), "%s raised %s: %s" % (what, type(x).__name__, str(x)[:200]), case)
        return None
    if r is not True and r is not False:
        acc.violation("%s/%s/not-bool/%s" % (P, law, cls), "%s returned %r (not a bool)" % (what, r), case)
        return None
    return r


def _must_raise(acc, P, law, cls, what, case, fn):
    acc.count(evaluations=1)
    try:
        r = fn()
    except Exception as x:  # noqa: BLE001
        if exc_origin(x) == "harness" and not isinstance(x, TypeError):
            raise
        acc.outcome("%s refused with %s" % (law, type(x).__name__))
        return True
    acc.violation("%s/%s/answered/%s" % (P, law, cls), "%s returned %r instead of raising" % (what, r), case)
    return False


def _pair(acc, T, P, a, b, hashable):
    va, vb = a.value, b.value
    exp = V.exp_eq(a, b)
    cls = _diff_class(T, a, b)
    case = _case(T, a, b)
    lab = "%s == %s" % (a.label, b.label)
    eq = _bool(acc, P, "eq", cls, lab, case, lambda: va == vb)
    ne = _bool(acc, P, "ne", cls, "%s != %s" % (a.label, b.label), case, lambda: va != vb)
    if eq is not None and eq != exp:
        acc.violation("%s/eq-components/%s" % (P, cls), "%s is %r; components %r vs %r" % (lab, eq, a.key, b.key), case)
    if eq is not None and ne is not None and ne == eq:
        acc.violation("%s/ne-negates-eq/%s" % (P, cls), "%s: == gives %r and != gives %r" % (lab, eq, ne), case)
    if a is b and eq is False:
        acc.violation("%s/eq-reflexive" % P, "%s is not equal to itself" % a.label, case)
    if eq is not None:
        rev = _bool(acc, P, "eq", cls, "%s == %s" % (b.label, a.label), case, lambda: vb == va)
        if rev is not None and rev != eq:
            acc.violation("%s/eq-symmetric/%s" % (P, cls), "%s is %r but the reverse is %r" % (lab, eq, rev), case)
    if T.has_equals:
        r = _bool(acc, P, "equals", cls, "%s.equals(%s)" % (a.label, b.label), case, lambda: va.equals(vb))
        if r is not None and r != exp:
            acc.violation("%s/equals-components/%s" % (P, cls), "%s.equals(%s) is %r; components %r vs %r" % (a.label, b.label, r, a.key, b.key), case)
    if hashable and exp:
        acc.count(evaluations=1)
        if hash(va) != hash(vb):
            acc.violation("%s/hash-equal/%s" % (P, "same-object" if va is vb else "separately-built"),
                          "%s and %s are equal but hash to %d and %d" % (a.label, b.label, hash(va), hash(vb)), case)
    if exp and va is not vb:
        rep = representation_mismatch(va, vb)
        if rep:
            acc.violation("%s/representation/separately-built" % P, "%s and %s are equal but keep different internal numeric types: %s"
                          % (a.label, b.label, "; ".join(rep[:4])), case)
    if exp and va is not vb:
        acc.count(nontrivial=1)
    elif not exp and sum(1 for i in range(len(a.key)) if a.key[i] != b.key[i]) == 1:
        acc.count(nontrivial=1)
    if not T.ordered:
        if a is b:
            # types without ordering operators: whatever '<' does is not constrained by the property; recorded only
            try:
                r = va < vb
                acc.outcome("%s has no ordering but '<' answered %r" % (T.name, r))
            except Exception as x:  # noqa: BLE001
                acc.outcome("%s has no ordering operators ('<' raises %s)" % (T.name, type(x).__name__))
        return
    if a.group != b.group:
        # cross-calendar: every ordering question must be refused
        acc.count(nontrivial=1)
        for name, fn in OPS.items():
            _must_raise(acc, P, "cross-calendar-" + name, "%s/%s" % (a.group, b.group), "%s %s %s" % (a.label, name, b.label), case, lambda fn=fn: fn(va, vb))
        if T.has_compare_to:
            _must_raise(acc, P, "cross-calendar-compare_to", "%s/%s" % (a.group, b.group), "%s.compare_to(%s)" % (a.label, b.label), case, lambda: va.compare_to(vb))
        if T.static_minmax:
            _must_raise(acc, P, "cross-calendar-min", "%s/%s" % (a.group, b.group), "%s.min(%s, %s)" % (T.name, a.label, b.label), case, lambda: T.cls.min(va, vb))
            _must_raise(acc, P, "cross-calendar-max", "%s/%s" % (a.group, b.group), "%s.max(%s, %s)" % (T.name, a.label, b.label), case, lambda: T.cls.max(va, vb))
        return
    c = V.exp_cmp(a, b)
    rel = {-1: "less", 0: "equal", 1: "greater"}[c]
    want = {"lt": c < 0, "le": c <= 0, "gt": c > 0, "ge": c >= 0}
    for name, fn in OPS.items():
        r = _bool(acc, P, name, rel, "%s %s %s" % (a.label, name, b.label), case, lambda fn=fn: fn(va, vb))
        if r is not None and r != want[name]:
            acc.violation("%s/%s/%s" % (P, name, rel), "%s %s %s is %r; on the timeline the first is %s (order keys %r, %r)"
                          % (a.label, name, b.label, r, rel, a.order, b.order), case)
    if T.has_compare_to:
        acc.count(evaluations=1)
        try:
            r = va.compare_to(vb)
            if not isinstance(r, int) or isinstance(r, bool) or V.sign(r) != c:
                acc.violation("%s/compare_to/%s" % (P, rel), "%s.compare_to(%s) is %r; expected sign %d" % (a.label, b.label, r, c), case)
        except Exception as x:  # noqa: BLE001
            acc.lib_exception("%s/compare_to" % P, x, case)
    lo, hi = (a, b) if c <= 0 else (b, a)
    funcs = [("builtin-min", lambda: min(va, vb), lo), ("builtin-max", lambda: max(va, vb), hi)]
    if T.static_minmax:
        funcs += [("min", lambda: T.cls.min(va, vb), lo), ("max", lambda: T.cls.max(va, vb), hi)]
    for name, fn, we in funcs:
        acc.count(evaluations=1)
        try:
            r = fn()
            got = tuple(T.observe(r))
        except Exception as x:  # noqa: BLE001
            acc.lib_exception("%s/%s" % (P, name), x, case)
            continue
        if got != we.key:
            acc.violation("%s/%s/%s" % (P, name, rel), "%s of (%s, %s) has components %r, expected %r" % (name, a.label, b.label, got, we.key), case)


def _triple(acc, T, P, ea, eb, ec, va, vb, vc):
    # equality is transitive (executed on the triple)
    acc.count(evaluations=3)
    ab, bc, ac = va == vb, vb == vc, va == vc
    if ab is True and bc is True and ac is not True:
        acc.violation("%s/eq-transitive" % P, "%s == %s and %s == %s but not %s == %s" % (ea.label, eb.label, eb.label, ec.label, ea.label, ec.label), _case(T, ea, eb, ec))
    if ab is True and (bc is True) != (ac is True):
        acc.violation("%s/eq-substitution" % P, "%s == %s but they compare differently with %s" % (ea.label, eb.label, ec.label), _case(T, ea, eb, ec))
    if not T.ordered or not (ea.group == eb.group == ec.group):
        return
    acc.count(evaluations=4)
    try:
        lab, lbc, lac = va < vb, vb < vc, va < vc
        leab, lebc, leac = va <= vb, vb <= vc, va <= vc
    except Exception as x:  # noqa: BLE001
        acc.lib_exception("%s/triple-order" % P, x, _case(T, ea, eb, ec))
        return
    if lab is True and lbc is True and lac is not True:
        acc.violation("%s/lt-transitive" % P, "%s < %s < %s but not %s < %s" % (ea.label, eb.label, ec.label, ea.label, ec.label), _case(T, ea, eb, ec))
    if leab is True and lebc is True and leac is not True:
        acc.violation("%s/le-transitive" % P, "%s <= %s <= %s but not %s <= %s" % (ea.label, eb.label, ec.label, ea.label, ec.label), _case(T, ea, eb, ec))
    # exactly one of <, ==, > (trichotomy) on the first pair, irreflexivity of <
    gt = vb < va
    if (lab is True) + (ab is True) + (gt is True) != 1:
        acc.violation("%s/trichotomy" % P, "%s vs %s: < is %r, == is %r, > is %r" % (ea.label, eb.label, lab, ab, gt), _case(T, ea, eb))
    try:
        got = [tuple(T.observe(v)) for v in sorted([va, vb, vc])]
        mn, mx = tuple(T.observe(min(va, vb, vc))), tuple(T.observe(max(va, vb, vc)))
    except Exception as x:  # noqa: BLE001
        acc.lib_exception("%s/triple-sorted" % P, x, _case(T, ea, eb, ec))
        return
    want = [e.key for e in sorted([ea, eb, ec], key=lambda e: e.order)]
    if got != want or mn != want[0] or mx != want[2]:
        acc.violation("%s/sorted-triple" % P, "sorted/min/max of (%s, %s, %s) give %r / %r / %r; timeline order is %r"
                      % (ea.label, eb.label, ec.label, got, mn, mx, want), _case(T, ea, eb, ec))
    if len({ea.key, eb.key, ec.key}) == 3:
        acc.count(nontrivial=1)


def _foreign(acc, T, P, e, fname, f):
    v = e.value
    case = {"type": T.name, "values": [e.label], "foreign": fname}
    cls = fname if fname in TYPE_BY_NAME else "non-pyoda:" + fname
    for what, fn, want in (("%s == <%s>" % (e.label, fname), lambda: v == f, False), ("<%s> == %s" % (fname, e.label), lambda: f == v, False),
                           ("%s != <%s>" % (e.label, fname), lambda: v != f, True), ("<%s> != %s" % (fname, e.label), lambda: f != v, True)):
        r = _bool(acc, P, "foreign-eq", cls, what, case, fn)
        if r is not None and r != want:
            acc.violation("%s/foreign-eq/%s" % (P, cls), "%s is %r" % (what, r), case)
    for name, fn in OPS.items():
        _must_raise(acc, P, "foreign-order", cls, "%s %s <%s>" % (e.label, name, fname), case, lambda fn=fn: fn(v, f))
        _must_raise(acc, P, "foreign-order", cls, "<%s> %s %s" % (fname, name, e.label), case, lambda fn=fn: fn(f, v))
    if T.has_compare_to:
        if f is None:
            acc.count(evaluations=1)
            try:
                r = v.compare_to(None)
                acc.outcome("compare_to(None) answers %r (the .NET convention: anything is greater than null)" % (r,))
                if not (isinstance(r, int) and r > 0):
                    acc.violation("%s/compare_to-none" % P, "%s.compare_to(None) returned %r (neither refused nor 'greater')" % (e.label, r), case)
            except Exception as x:  # noqa: BLE001
                acc.outcome("compare_to(None) refused with %s" % type(x).__name__)
        else:
            _must_raise(acc, P, "foreign-compare_to", cls, "%s.compare_to(<%s>)" % (e.label, fname), case, lambda: v.compare_to(f))
    if T.has_equals and f is not None:
        acc.count(evaluations=1)
        try:
            r = v.equals(f)
            if r is True:
                acc.violation("%s/foreign-equals/%s" % (P, cls), "%s.equals(<%s>) is True" % (e.label, fname), case)
        except Exception:  # noqa: BLE001
            pass


# ------------------------------------------------------------------------------------------------ immutability part

DUNDERS = ("__add__", "__radd__", "__sub__", "__rsub__", "__mul__", "__rmul__", "__truediv__", "__rtruediv__", "__floordiv__", "__mod__",
           "__neg__", "__pos__", "__abs__", "__eq__", "__ne__", "__lt__", "__le__", "__gt__", "__ge__", "__hash__", "__repr__", "__str__",
           "__format__", "__contains__", "__iter__", "__len__", "__and__", "__or__", "__bool__", "__getitem__", "__invert__",
           "__xor__", "__matmul__", "__pow__", "__rfloordiv__", "__rmod__", "__rand__", "__ror__", "__rxor__", "__rpow__", "__next__",
           "__iadd__", "__isub__", "__imul__", "__itruediv__", "__ifloordiv__", "__imod__", "__iand__", "__ior__", "__ixor__", "__ipow__",
           "__imatmul__")
import operator as _op  # noqa: E402

# binary operator routes: dunder -> (symbol, plain operator, augmented operator)
BINOPS = {"__add__": ("+", _op.add, _op.iadd), "__sub__": ("-", _op.sub, _op.isub), "__mul__": ("*", _op.mul, _op.imul),
          "__truediv__": ("/", _op.truediv, _op.itruediv), "__floordiv__": ("//", _op.floordiv, _op.ifloordiv), "__mod__": ("%", _op.mod, _op.imod),
          "__and__": ("&", _op.and_, _op.iand), "__or__": ("|", _op.or_, _op.ior), "__xor__": ("^", _op.xor, _op.ixor),
          "__pow__": ("**", _op.pow, _op.ipow), "__matmul__": ("@", _op.matmul, _op.imatmul)}
_ADDR = re.compile(r" object at 0x[0-9a-fA-F]+")


def _is_opaque(obj):
    """Shared singletons that are not values under test: calendars, non-fixed zones, eras, cultures, providers."""
    if isinstance(obj, CalendarSystem):
        return True
    if isinstance(obj, DateTimeZone):
        return type(obj).__name__ != "_FixedDateTimeZone"
    n = type(obj).__name__
    return n in ("Era", "CultureInfo", "_PyodaFormatInfo", "DateTimeFormatInfo", "NumberFormatInfo") or inspect.isroutine(obj) or inspect.isclass(obj) \
        or inspect.ismodule(obj)


def fingerprint(obj, depth=0):
    """Deep private state: every attribute reachable through __dict__/__slots__, opaque singletons by identity."""
    if obj is None or isinstance(obj, (bool, int, float, str, bytes)):
        return obj
    if isinstance(obj, enum.Enum):
        return ("enum", type(obj).__name__, obj.name)
    if isinstance(obj, (tuple, list)):
        return (type(obj).__name__,) + tuple(fingerprint(x, depth + 1) for x in obj)
    if isinstance(obj, dict):
        return ("dict",) + tuple(sorted((repr(k), fingerprint(v, depth + 1)) for k, v in obj.items()))
    if isinstance(obj, (set, frozenset)):
        return ("set",) + tuple(sorted(repr(x) for x in obj))
    if depth > 8 or _is_opaque(obj):
        return ("ref", type(obj).__name__, id(obj))
    if not type(obj).__module__.startswith("pyoda_time"):
        return ("ext", type(obj).__name__, repr(obj))
    items = []
    d = getattr(obj, "__dict__", None)
    if d:
        items += [(k, fingerprint(v, depth + 1)) for k, v in d.items()]
    for klass in type(obj).__mro__:
        for s in getattr(klass, "__slots__", ()) or ():
            if isinstance(s, str) and s not in ("__dict__", "__weakref__"):
                name = s if not (s.startswith("__") and not s.endswith("__")) else "_%s%s" % (klass.__name__.lstrip("_"), s)
                try:
                    items.append((name, fingerprint(getattr(obj, name), depth + 1)))
                except AttributeError:
                    items.append((name, "<unset>"))
    return (type(obj).__name__,) + tuple(sorted(items))


_PROPS = {}


def public_props(cls):
    r = _PROPS.get(cls)
    if r is None:
        r = []
        for n in dir(cls):
            if n.startswith("_"):
                continue
            try:
                raw = inspect.getattr_static(cls, n)
            except AttributeError:
                continue
            if isinstance(raw, property):
                r.append(n)
        _PROPS[cls] = r
    return r


def observe(obj, depth=0):
    """Deep observable snapshot through the public surface only: repr + every public property, recursively."""
    if obj is None or isinstance(obj, (bool, int, float, str, bytes)):
        return obj
    if isinstance(obj, enum.Enum):
        return str(obj)
    if isinstance(obj, (tuple, list)):
        return [observe(x, depth + 1) for x in obj]
    cls = type(obj)
    if not cls.__module__.startswith("pyoda_time"):
        return _ADDR.sub("", repr(obj))
    out = {"type": cls.__name__}
    try:
        out["repr"] = _ADDR.sub("", repr(obj))
    except Exception as x:  # noqa: BLE001
        out["repr"] = "raises " + type(x).__name__
    if isinstance(obj, CalendarSystem) or (isinstance(obj, DateTimeZone) and cls.__name__ != "_FixedDateTimeZone"):
        out["id"] = obj.id
        return out
    if depth < 3:
        for p in public_props(cls):
            try:
                out[p] = observe(getattr(obj, p), depth + 1)
            except Exception as x:  # noqa: BLE001
                out[p] = "raises " + type(x).__name__
    return out


def _split_union(ann):
    parts, depth, cur = [], 0, ""
    for ch in ann:
        if ch in "[(":
            depth += 1
        elif ch in "])":
            depth -= 1
        if ch == "|" and depth == 0:
            parts.append(cur.strip())
            cur = ""
        else:
            cur += ch
    parts.append(cur.strip())
    return [p for p in parts if p]


class Pools:
    """Typed argument pools.  Values of the 17 types come from the alphabets."""

    def __init__(self, tier):
        build_all()
        k = 2 if tier == "quick" else 4
        self.k = k
        self.by = {}
        for T in TYPES:
            ents = T.entries
            if not ents:
                self.by[T.cls.__name__] = []
                continue
            pick = [ents[0], ents[len(ents) // 2], ents[-1], ents[len(ents) // 3]][:k]
            self.by[T.cls.__name__] = [e.value for e in pick]
        self.by["_FixedDateTimeZone"] = self.by[TYPE_BY_NAME["FixedZone"].cls.__name__]
        ld = LocalDate(2000, 2, 29)
        self.by.update({
            "int": [1, -1, 0][:k], "float": [2, 0.5][:k], "bool": [True], "str": ["", "G"][:k], "str | None": [None, "G"][:k], "object": [None, 0],
            "None": [None], "Any": [None],
            "CalendarSystem": [ISO, JUL, HS][:k], "DateTimeZone": [DateTimeZone.utc] + ([london_or_none()] if london_or_none() is not None else []),
            "IsoDayOfWeek": [IsoDayOfWeek.MONDAY, IsoDayOfWeek.SUNDAY], "PeriodUnits": [PeriodUnits.DAYS, PeriodUnits.ALL_UNITS][:k],
            "Callable[[LocalDate], LocalDate]": [lambda d: d.plus_days(1), lambda d: d][:k],
            "Callable[[LocalTime], LocalTime]": [lambda t: t.plus_hours(1), lambda t: t][:k],
            "datetime.timedelta": [_dt.timedelta(hours=1)], "timedelta": [_dt.timedelta(hours=1)],
            "datetime.datetime": [_dt.datetime(2000, 2, 29, 12, 0, tzinfo=_dt.timezone.utc)], "datetime": [_dt.datetime(2000, 2, 29, 12, 0, tzinfo=_dt.timezone.utc)],
            "datetime.date": [_dt.date(2000, 2, 29)], "datetime.time": [_dt.time(12, 0)],
            "Era": [ld.era], "Era | None": [None],
        })
        try:
            from pyoda_time.time_zones import Resolvers
            self.by["ZoneLocalMappingResolver"] = [Resolvers.lenient_resolver]
        except Exception:  # noqa: BLE001
            pass

    def pool(self, ann):
        if ann is inspect.Parameter.empty:
            return None
        ann = str(ann).strip().strip("'\"")
        if ann in self.by:
            return self.by[ann]
        parts = [self.by[part] for part in _split_union(ann) if part in self.by]
        out = []
        for j in range(max((len(p) for p in parts), default=0)):      # round-robin so a small cap sees every alternative type
            for p in parts:
                if j < len(p) and not any(p[j] is y for y in out):
                    out.append(p[j])
        return out or None


def _owner_is_pyoda(cls, name):
    for k in cls.__mro__:
        if name in k.__dict__:
            return k.__module__.startswith("pyoda_time")
    return False


def menu(cls, pools: Pools, tier, skipped):
    """[(label, kind, name, params)] of the public surface of cls; params = [(param name, kind, pool)]."""
    out = []
    own_names = {cls.__name__}
    for k in cls.__mro__:
        if k.__module__.startswith("pyoda_time") and k.__name__ == "DateTimeZone":
            own_names.add("DateTimeZone")
    for name in dir(cls):
        if name.startswith("_") and name not in DUNDERS:
            continue
        if name in DUNDERS and not _owner_is_pyoda(cls, name):
            continue
        try:
            raw = inspect.getattr_static(cls, name)
        except AttributeError:
            continue
        if isinstance(raw, property):
            out.append(("get:" + name, "prop", name, []))
            out.append(("set:" + name, "setprop", name, []))
            continue
        attr = getattr(cls, name)
        if not callable(attr):
            continue
        kind = "static" if isinstance(raw, (staticmethod, classmethod)) else "method"
        if name == "read":
            skipped.add("%s.%s (needs a stream reader)" % (cls.__name__, name))
            continue
        try:
            sig = inspect.signature(attr)
        except (TypeError, ValueError):
            skipped.add("%s.%s (no signature)" % (cls.__name__, name))
            continue
        params = list(sig.parameters.values())
        if kind == "method":
            params = params[1:]
        plist = []
        ok = True
        has_own = False
        for p in params:
            if p.kind in (p.VAR_POSITIONAL, p.VAR_KEYWORD):
                continue
            if p.kind == p.KEYWORD_ONLY and p.default is not p.empty:
                pool = pools.pool(p.annotation)
                plist.append((p.name, "kwopt", pool or []))
                continue
            pool = pools.pool(p.annotation)
            if name in DUNDERS and (p.annotation is p.empty or str(p.annotation).strip("'\"") == "object"):
                pool = list(pools.by.get(cls.__name__) or []) + [None]
            if pool is None:
                ok = False
                skipped.add("%s.%s (no argument pool for %r)" % (cls.__name__, name, p.annotation))
                break
            own = any(part in own_names for part in _split_union(str(p.annotation).strip("'\"")))
            has_own = has_own or own
            plist.append((p.name, "kw" if p.kind == p.KEYWORD_ONLY else "pos", pool, own))
        if not ok:
            continue
        if kind == "static" and not has_own:
            continue            # constructors / factories without an operand of the type
        out.append((name, kind, name, plist))
    return out


def _try_set(v, n):
    """Assign to a public property (its current value when readable): a value type must refuse."""
    try:
        cur = getattr(v, n)
    except Exception:  # noqa: BLE001
        cur = None
    setattr(v, n, cur)


def calls_for(cls, v, pools, tier, skipped, maxcombo):
    """Concrete calls on operand v: [(label, thunk, operands)]."""
    out = []
    for label, kind, name, plist in menu(cls, pools, tier, skipped):
        if kind == "prop":
            out.append((label, (lambda n=name: getattr(v, n)), [v]))
            continue
        if kind == "setprop":
            out.append((label, (lambda n=name: _try_set(v, n)), [v]))
            continue
        pos = [p for p in plist if p[1] == "pos"]
        kws = [p for p in plist if p[1] == "kw"]
        kwopt = [p for p in plist if p[1] == "kwopt"]
        if kind == "static":
            own_idx = [i for i, p in enumerate(pos) if p[3]]
            combos = []
            for oi in own_idx:
                pools_i = [[v] if i == oi else p[2] for i, p in enumerate(pos)]
                combos += list(itertools.islice(itertools.product(*pools_i), maxcombo))
            fn = getattr(cls, name)
        else:
            pools_i = [p[2] for p in pos]
            combos = list(itertools.islice(_spread_product(pools_i, maxcombo), maxcombo)) if pools_i else [()]
            fn = None
        kwsets = [{}]
        if kws:
            kwsets = [dict(zip([p[0] for p in kws], c)) for c in itertools.islice(itertools.product(*[p[2] for p in kws]), maxcombo)]
        elif kwopt and any(p[2] for p in kwopt):
            first = [p for p in kwopt if p[2]][0]
            kwsets = [{}, {first[0]: first[2][0]}]
        for ci, args in enumerate(combos):
            for ki, kw in enumerate(kwsets):
                lab = "%s#%d" % (label, ci * len(kwsets) + ki) if len(combos) * len(kwsets) > 1 else label
                if kind == "static":
                    out.append((lab, (lambda fn=fn, args=args, kw=kw: fn(*args, **kw)), list(args) + list(kw.values())))
                else:
                    out.append((lab, (lambda n=name, args=args, kw=kw: getattr(v, n)(*args, **kw)), [v] + list(args) + list(kw.values())))
    return out


def binop_args(cls, pools, tier, skipped, maxcombo):
    """[(dunder, symbol, plain op, augmented op, argument)] for every binary operator the class supports."""
    out = []
    for label, kind, name, plist in menu(cls, pools, tier, skipped):
        if name in BINOPS and kind == "method" and len(plist) == 1:
            sym, plain, aug = BINOPS[name]
            for x in plist[0][2][:maxcombo + 1]:
                out.append((name, sym, plain, aug, x))
    return out


def operator_calls(cls, v, pools, tier, skipped, maxcombo):
    """Augmented-assignment and reflected routes of every supported binary operator, as calls for the sequence exploration."""
    out = []
    for i, (name, sym, plain, aug, x) in enumerate(binop_args(cls, pools, tier, skipped, maxcombo)):
        out.append(("aug:v %s= arg#%d" % (sym, i), (lambda aug=aug, x=x: aug(v, x)), [v, x]))
        if x is not None:
            out.append(("reflected:arg %s v#%d" % (sym, i), (lambda plain=plain, x=x: plain(x, v)), [v, x]))
    return out


def _spread_product(pools_i, maxcombo):
    """Product order that varies every position early (diagonal first), so small caps still touch each pool entry."""
    n = max(len(p) for p in pools_i)
    seen = set()
    for j in range(n):
        c = tuple(p[j % len(p)] for p in pools_i)
        k = tuple(id(x) for x in c)
        if k not in seen:
            seen.add(k)
            yield c
    for c in itertools.product(*pools_i):
        k = tuple(id(x) for x in c)
        if k not in seen:
            seen.add(k)
            yield c


def _consume(r):
    """Exercise a result a little: drain iterators (bounded), poke mutable results."""
    if inspect.isgenerator(r) or (hasattr(r, "__next__") and hasattr(r, "__iter__")):
        for _ in itertools.islice(r, 40):
            pass
        return
    if isinstance(r, list):
        r.append(None)
        if len(r) > 1:
            r[0] = None
    elif isinstance(r, dict):
        r.clear()
    elif isinstance(r, set):
        r.clear()
    elif type(r).__name__ == "PeriodBuilder":
        for f in PERIOD_FIELDS:
            try:
                setattr(r, f, 99)
            except Exception:  # noqa: BLE001
                pass
        r.build()


def _quiet(thunk):
    """Like _run but leaves the result alone."""
    try:
        return thunk()
    except Exception as x:  # noqa: BLE001
        if exc_origin(x) == "harness" and not isinstance(x, (TypeError, AttributeError, ValueError, OverflowError, NotImplementedError, StopIteration)):
            raise
        return x


def _run(thunk):
    try:
        r = thunk()
        _consume(r)
        return r
    except Exception as x:  # noqa: BLE001
        if exc_origin(x) == "harness" and not isinstance(x, (TypeError, AttributeError, ValueError, OverflowError, NotImplementedError)):
            raise
        return x


class Baselines:
    """Fingerprint + observable snapshot of every operand object (alphabet values and pool objects)."""

    def __init__(self):
        self.fp = {}
        self.obs = {}
        self.keep = []

    def add(self, obj):
        k = id(obj)
        if k not in self.fp and not (obj is None or isinstance(obj, (bool, int, float, str, bytes, enum.Enum))) and not inspect.isroutine(obj):
            self.keep.append(obj)
            self.fp[k] = fingerprint(obj)
            self.obs[k] = observe(obj)

    def changed(self, obj):
        """None if unchanged; ('cache', ...) if only private state moved; ('observable', before, after) otherwise."""
        k = id(obj)
        if k not in self.fp:
            return None
        f = fingerprint(obj)
        if f == self.fp[k]:
            return None
        o = observe(obj)
        if o == self.obs[k]:
            self.fp[k] = f
            return ("cache",)
        before = self.obs[k]
        self.fp[k] = f
        self.obs[k] = o
        return ("observable", before, o)


def immut_worker(args):
    return _guarded("immutability", args[1], _immut_worker, args)


def _immut_worker(args, acc):
    tier, tname, idxs = args
    build_all()
    T = TYPE_BY_NAME[tname]
    pools = Pools(tier)
    skipped = set()
    maxcombo = 2 if tier == "quick" else 6
    P = "C12/%s/immutability" % T.name
    value_classes = {t.cls for t in TYPES}
    for idx in idxs:
        e = T.entries[idx]
        v = e.value
        calls = calls_for(T.cls, v, pools, tier, skipped, maxcombo) + operator_calls(T.cls, v, pools, tier, skipped, maxcombo)
        base = Baselines()
        base.add(v)
        for _l, _t, ops in calls:
            for o in ops:
                base.add(o)
        acc.count(states=1)
        acc.note("menu %s" % T.name, {"calls per operand": len(calls), "distinct members": len({c[0].split("#")[0] for c in calls})})

        def verify(objs, seq, extra=None):
            for o in objs:
                ch = base.changed(o)
                if ch is None:
                    continue
                if ch[0] == "cache":
                    acc.outcome("%s: private state moved, public observable snapshot unchanged (lazy cache)" % T.name)
                    continue
                culprit = seq[-1].split("#")[0]
                acc.violation("%s/%s" % (P, culprit),
                              "after the call sequence %r on %s the observable state of %s changed: before %r, after %r"
                              % (seq, e.label, "the operand" if o is v else "an argument (%s)" % type(o).__name__, _trim(ch[1]), _trim(ch[2])),
                              {"type": T.name, "value": e.label, "sequence": seq})

        # sequences of length 1 (+ what kind of result each call gives)
        results = []
        for lab, th, ops in calls:
            acc.count(transitions=1, evaluations=1)
            r = _run(th)
            results.append(r)
            verify(ops, [lab])
            if lab.startswith("set:"):
                if not isinstance(r, AttributeError):
                    acc.violation("%s/%s" % (P, lab), "assigning to the public property %s of %s did not raise AttributeError (result %r)"
                                  % (lab[4:], e.label, r), {"type": T.name, "value": e.label, "sequence": [lab]})
                else:
                    acc.outcome("assignment to a public property refused (AttributeError)")
            elif isinstance(r, Exception):
                acc.outcome("call raised %s" % type(r).__name__)
            elif type(r) in value_classes:
                acc.outcome("call returned a %s" % ("value of the same type" if isinstance(r, T.cls) else "value of another pyoda type"))
            else:
                acc.outcome("call returned %s" % type(r).__name__)
        # sequences of length 2 on the same operand: c1 then c2, both from the pristine value
        for i1, (l1, t1, o1) in enumerate(calls):
            for l2, t2, o2 in calls:
                acc.count(transitions=2, evaluations=1)
                _run(t1)
                _run(t2)
                verify(o1 + o2, [l1, l2])
        acc.count(nontrivial=len(calls) * len(calls))
        # sequences of length 2 where the second call is applied to the result of the first
        for i1, (l1, t1, o1) in enumerate(calls):
            r = results[i1]
            if type(r) not in value_classes:
                continue
            R = [t for t in TYPES if t.cls is type(r)][0]
            rcalls = calls_for(R.cls, r, pools, tier, skipped, maxcombo)
            base.add(r)
            for l2, t2, o2 in rcalls:
                for o in o2:
                    base.add(o)
            for l2, t2, o2 in rcalls:
                acc.count(transitions=1, evaluations=1, nontrivial=1)
                _run(t2)
                verify(o1 + o2, [l1, "result." + l2])
        _augmented_stage(acc, T, P, e, v, pools, tier, skipped, maxcombo, verify)
        _iterator_stage(acc, T, P, e, v, verify)
        acc.sample({"type": T.name, "operand": e.label, "calls": len(calls), "first calls": [c[0] for c in calls[:5]]})
    if skipped:
        acc.note("menu members skipped (%s)" % T.name, sorted(skipped))
    return acc


def _augmented_stage(acc, T, P, e, v, pools, tier, skipped, maxcombo, verify):
    """x = v; x <op>= arg  must behave as  x = v <op> arg: same result (or both refuse), and every other reference to the
    left operand (a second name, a list element, a dictionary key) stays observably what it was."""
    for name, sym, plain, aug, x in binop_args(T.cls, pools, tier, skipped, maxcombo):
        acc.count(transitions=2, evaluations=1)
        case = {"type": T.name, "value": e.label, "sequence": ["x = v; x %s= arg" % sym]}
        second_name = v
        holder = [v]
        try:
            table = {v: "key"}
        except TypeError:
            table = None
        r_plain = _run(lambda: plain(v, x))
        target = v
        r_aug = _run(lambda: aug(target, x))
        verify([v, x], ["x = v; x %s= arg" % sym])
        if second_name is not v or holder[0] is not v:
            raise RuntimeError("harness: aliases lost")
        pe, ae = isinstance(r_plain, Exception), isinstance(r_aug, Exception)
        if pe != ae or (pe and type(r_plain) is not type(r_aug)):
            acc.violation("%s/augmented:%s=/outcome" % (P, sym), "with v = %s: v %s arg gives %r but x = v; x %s= arg gives %r"
                          % (e.label, sym, _trim(r_plain), sym, _trim(r_aug)), case)
        elif not pe:
            same = type(r_plain) is type(r_aug) and _quiet(lambda: r_plain == r_aug) is True
            if not same and observe(r_plain) != observe(r_aug):
                acc.violation("%s/augmented:%s=/result" % (P, sym), "with v = %s: v %s arg is %r but x = v; x %s= arg leaves x = %r"
                              % (e.label, sym, _trim(observe(r_plain)), sym, _trim(observe(r_aug))), case)
            acc.outcome("augmented assignment %s=: %s" % (sym, "returns the left operand itself" if r_aug is v else "returns a new value"))
        else:
            acc.outcome("augmented assignment %s=: refused like the plain operator (%s)" % (sym, type(r_aug).__name__))
        if table is not None:
            fresh = _quiet(e.build)
            found = _quiet(lambda: table.get(fresh))
            if found != "key" or _quiet(lambda: v in table) is not True:
                acc.violation("%s/augmented:%s=/dict-key" % (P, sym), "a dictionary keyed by %s no longer finds it (or an equal, separately built "
                              "value) after x = v; x %s= arg: lookup gives %r" % (e.label, sym, found), case)


_ITER_N = 6


def _iterator_stage(acc, T, P, e, v, verify):
    """Iteration is part of what a value shows: it must not depend on other iterations in progress over the same value."""
    if not _owner_is_pyoda(T.cls, "__iter__"):
        return
    lab = ["iter(v)"]
    case = {"type": T.name, "value": e.label, "sequence": lab}

    def prefix(it):
        return [observe(x) for x in itertools.islice(it, _ITER_N)]
    first = _quiet(lambda: prefix(iter(v)))
    if isinstance(first, Exception) or not first:
        acc.outcome("%s: iter() refused or empty (%s)" % (T.name, type(first).__name__))
        return
    k = len(first)
    acc.count(transitions=6, evaluations=6, nontrivial=1)

    def law(name, fn, what):
        r = _quiet(fn)
        if isinstance(r, Exception):
            acc.violation("%s/iterator/%s" % (P, name), "%s over %s raised %s: %s" % (what, e.label, type(r).__name__, str(r)[:200]), case)
        elif r is not True:
            acc.violation("%s/iterator/%s" % (P, name), "%s over %s: %s; a single iteration gives %s" % (what, e.label, _trim(r), _trim(first)), case)

    law("returns-self", lambda: True if iter(v) is not v else "iter(v) is v: the value is its own (stateful) iterator", "iter(v)")

    def interleaved():
        i1, i2 = iter(v), iter(v)
        a, b = [], []
        for _ in range(k):
            a.append(observe(next(i1)))
            b.append(observe(next(i2)))
        return True if (a == first and b == first) else "two interleaved iterators give %r and %r" % (a, b)
    law("interleaved", interleaved, "two interleaved iterators")

    def nested():
        n = sum(1 for _x in itertools.islice(v, k) for _y in itertools.islice(v, k))
        return True if n == k * k else "nested loops over the first %d elements visit %d pairs, expected %d" % (k, n, k * k)
    law("nested-loops", nested, "nested loops")

    def zipped():
        pairs = [(observe(x), observe(y)) for x, y in itertools.islice(zip(v, v), k)]
        return True if pairs == [(x, x) for x in first] else "zip(v, v) gives %r" % (pairs,)
    law("zip", zipped, "zip(v, v)")

    def list_inside():
        outer = []
        for x in itertools.islice(v, k):
            outer.append(observe(x))
            prefix(iter(v))
        return True if outer == first else "a loop that iterates v again inside its body sees %r" % (outer,)
    law("iteration-inside-loop", list_inside, "list(v) inside a loop over v")

    def partial():
        it = iter(v)
        next(it)
        verify([v], ["next(iter(v))"])
        again = prefix(iter(v))
        return True if again == first else "after a partial iteration a new iteration gives %r" % (again,)
    law("after-partial-iteration", partial, "a new iteration after a partial one")
    acc.outcome("%s: iterator protocol checked (%d elements)" % (T.name, k))


def _trim(o):
    s = repr(o)
    return s if len(s) < 600 else s[:600] + "..."


# ------------------------------------------------------------------------------------------------ numeric-argument part

import decimal as _decimal  # noqa: E402
import fractions as _fractions  # noqa: E402

_NUMERIC = (bool, int, float, complex, _decimal.Decimal, _fractions.Fraction)


def _attrs(obj):
    """(name, value) of every attribute stored on a pyoda object (__dict__ and __slots__)."""
    out = []
    d = getattr(obj, "__dict__", None)
    if d:
        out += list(d.items())
    for klass in type(obj).__mro__:
        for s in getattr(klass, "__slots__", ()) or ():
            if isinstance(s, str) and s not in ("__dict__", "__weakref__"):
                name = s if not (s.startswith("__") and not s.endswith("__")) else "_%s%s" % (klass.__name__.lstrip("_"), s)
                try:
                    out.append((name, getattr(obj, name)))
                except AttributeError:
                    pass
    return out


def representation_mismatch(a, b, path="", depth=0):
    """Equal values built through different routes must keep the same internal numeric representation: walk the stored
    attributes both objects have in common and list the paths where both hold numbers of DIFFERENT numeric types
    (int vs float, int vs Decimal, ...).  Attributes present on one side only (lazy caches) are ignored."""
    if isinstance(a, _NUMERIC) and isinstance(b, _NUMERIC):
        return [] if type(a) is type(b) else ["%s: %s %r vs %s %r" % (path or "<value>", type(a).__name__, a, type(b).__name__, b)]
    if depth > 6 or a is None or b is None or type(a) is not type(b):
        return []
    if isinstance(a, (tuple, list)):
        out = []
        for i, (x, y) in enumerate(zip(a, b)):
            out += representation_mismatch(x, y, "%s[%d]" % (path, i), depth + 1)
        return out
    if not type(a).__module__.startswith("pyoda_time") or _is_opaque(a):
        return []
    da, db = dict(_attrs(a)), dict(_attrs(b))
    out = []
    for k in da:
        if k in db:
            out += representation_mismatch(da[k], db[k], "%s.%s" % (path, k) if path else k, depth + 1)
    return out


NUMERIC_KS = (0, 1, 2, -3, 7, 86_400, 2_451_545, 10**6)


def _small_operand(cls):
    """For scalar-like types (one numeric timeline component): the alphabet value of smallest non-zero magnitude, so that k times
    it stays below 2^53 and float arithmetic with an integral float k is exact (rounding of large float products is not at issue)."""
    for T in TYPES:
        if T.cls is cls and T.entries and all(e.order is not None and len(e.order) == 1 and isinstance(e.order[0], int) for e in T.entries):
            cand = [e for e in T.entries if e.order[0] != 0 and abs(e.order[0]) * max(abs(k) for k in NUMERIC_KS) < 2**53]
            if cand:
                return min(cand, key=lambda e: (abs(e.order[0]), e.order[0] < 0)).value
    return None


def float_members(cls, pools, tier, skipped):
    """Public members (factories, methods, operators) with a parameter documented as accepting a float:
    [(label, call(k) -> result)] with the other parameters filled from the pools."""
    out = []
    for name in dir(cls):
        if name.startswith("_") and name not in DUNDERS:
            continue
        if name in DUNDERS and not _owner_is_pyoda(cls, name):
            continue
        try:
            raw = inspect.getattr_static(cls, name)
            attr = getattr(cls, name)
            if isinstance(raw, property) or not callable(attr):
                continue
            sig = inspect.signature(attr)
        except (AttributeError, TypeError, ValueError):
            continue
        is_static = isinstance(raw, (staticmethod, classmethod))
        params = [p for p in sig.parameters.values() if p.kind in (p.POSITIONAL_ONLY, p.POSITIONAL_OR_KEYWORD)]
        if not is_static:
            params = params[1:]
        fidx = [i for i, p in enumerate(params) if "float" in _split_union(str(p.annotation).strip("'\""))]
        for fi in fidx:
            others = []
            ok = True
            for i, p in enumerate(params):
                if i == fi:
                    others.append(None)
                    continue
                if p.default is not p.empty:
                    others.append(p.default)
                    continue
                pool = [x for x in (pools.pool(p.annotation) or []) if not isinstance(x, _NUMERIC) and x is not None]
                if not pool:
                    ok = False
                    break
                others.append(_small_operand(type(pool[-1])) or pool[-1])
            if not ok:
                continue
            recv = None if is_static else (_small_operand(cls) or (pools.by.get(cls.__name__) or [None])[-1])
            if not is_static and recv is None:
                continue

            def call(k, name=name, fi=fi, others=others, recv=recv, is_static=is_static):
                args = [k if i == fi else o for i, o in enumerate(others)]
                return getattr(cls, name)(*args) if is_static else getattr(recv, name)(*args)
            out.append(("%s(%s)" % (name, ", ".join("<k>" if i == fi else type(o).__name__ for i, o in enumerate(others))), call))
    return out


def numeric_worker(tname):
    return _guarded("numeric", tname, _numeric_worker, tname)


def _numeric_worker(tname, acc):
    """The numeric type of an argument is not a component of the value: a member documented to take a float must give, for
    int k and float(k), results that are equal, hash-equal, interchangeable as set/dict keys, identical in every public
    observation and in their internal numeric representation - and so must everything computed from them by one more call."""
    build_all()
    T = TYPE_BY_NAME[tname]
    pools = Pools("quick")
    skipped = set()
    P = "C12/%s/numeric-argument" % T.name
    value_classes = {t.cls for t in TYPES}
    members = float_members(T.cls, pools, "quick", skipped)
    acc.note("float-taking members %s" % T.name, [m[0] for m in members])

    def same(label, law_prefix, ri, rf, case, deep):
        """Compare the int-route result ri with the float-route result rf."""
        ei, ef = isinstance(ri, Exception), isinstance(rf, Exception)
        if ei or ef:
            if ei != ef:
                acc.violation("%s/%s/%soutcome" % (P, label, law_prefix), "int argument gives %s, float argument gives %s" % (_trim(ri), _trim(rf)), case)
            else:
                acc.outcome("numeric: both routes refuse (%s / %s)" % (type(ri).__name__, type(rf).__name__))
            return False
        if type(ri) is not type(rf):
            acc.violation("%s/%s/%sresult-type" % (P, label, law_prefix), "int argument gives a %s, float argument a %s" % (type(ri).__name__, type(rf).__name__), case)
            return False
        if type(ri) not in value_classes:
            if observe(ri) != observe(rf) and not (isinstance(ri, float) and ri != ri and rf != rf):
                acc.violation("%s/%s/%sresult" % (P, label, law_prefix), "int argument gives %s, float argument gives %s" % (_trim(observe(ri)), _trim(observe(rf))), case)
                return False
            return True
        bad = []
        eq = _quiet(lambda: (ri == rf, rf == ri, ri != rf))
        if eq != (True, True, False):
            bad.append(("equal", "==, reversed ==, != give %r" % (eq,)))
        hi, hf = _quiet(lambda: hash(ri)), _quiet(lambda: hash(rf))
        if isinstance(hi, Exception) != isinstance(hf, Exception) or (not isinstance(hi, Exception) and hi != hf):
            bad.append(("hash", "hash of the int route: %s; of the float route: %s" % (_trim(hi), _trim(hf))))
        elif not isinstance(hi, Exception):
            look = _quiet(lambda: ({ri: "k"}.get(rf), rf in {ri}, ri in {rf}, len({ri, rf})))
            if look != ("k", True, True, 1):
                bad.append(("set-dict", "dict lookup / set membership / set size across the routes give %s" % _trim(look)))
        oi, of = observe(ri), observe(rf)
        if oi != of:
            diff = [k for k in oi if isinstance(oi, dict) and isinstance(of, dict) and oi.get(k) != of.get(k)]
            bad.append(("observation", "public observations differ in %r: %s vs %s" % (diff[:6], _trim({k: oi[k] for k in diff[:4]}), _trim({k: of.get(k) for k in diff[:4]}))))
        si, sf = _quiet(lambda: str(ri)), _quiet(lambda: str(rf))
        if _ADDR.sub("", repr(si)) != _ADDR.sub("", repr(sf)):
            bad.append(("str", "str() gives %r vs %r" % (si, sf)))
        rep = representation_mismatch(ri, rf)
        if rep:
            bad.append(("representation", "internal numeric representation differs: %s" % "; ".join(rep[:4])))
        for law, what in bad:
            acc.violation("%s/%s/%s%s" % (P, label, law_prefix, law), "%s: %s" % (case["call"], what), case)
        return not bad

    for label, call in members:
        for k in NUMERIC_KS:
            acc.count(states=1, transitions=2, evaluations=1)
            case = {"type": T.name, "member": label, "k": k, "call": "%s with k = %d vs %r" % (label, k, float(k))}
            ri = _quiet(lambda: call(k))
            rf = _quiet(lambda: call(float(k)))
            if not same(label, "", ri, rf, case, True):
                continue
            acc.outcome("numeric: int and float argument give interchangeable results")
            if type(ri) not in value_classes:
                continue
            acc.count(nontrivial=1)
            # one more call on both results: everything computed from them must agree as well
            R = [t for t in TYPES if t.cls is type(ri)][0]
            ci = calls_for(R.cls, ri, pools, "quick", skipped, 2) + operator_calls(R.cls, ri, pools, "quick", skipped, 2)
            cf = calls_for(R.cls, rf, pools, "quick", skipped, 2) + operator_calls(R.cls, rf, pools, "quick", skipped, 2)
            for (l1, t1, _o1), (l2, t2, _o2) in zip(ci, cf):
                if l1 != l2 or l1.startswith("set:"):
                    continue
                acc.count(transitions=2, evaluations=1)
                di, df = _quiet(t1), _quiet(t2)
                if inspect.isgenerator(di) or inspect.isgenerator(df):
                    di, df = _quiet(lambda: list(itertools.islice(di, 8))), _quiet(lambda: list(itertools.islice(df, 8)))
                same(label, "derived:%s/" % l1.split("#")[0], di, df, dict(case, derived=l1), False)
    acc.sample({"type": T.name, "float-taking members": [m[0] for m in members][:8], "k values": list(NUMERIC_KS)})
    return acc


# ------------------------------------------------------------------------------------------------ clone routes

import copy as _copy  # noqa: E402
import pickle as _pickle  # noqa: E402


def clone_problems(T, clone, e):
    """A clone of a value (however obtained) must be indistinguishable from the value rebuilt from its components:
    returns [(law, description)]."""
    v = e.value
    out = []
    if type(clone) is not type(v):
        return [("type", "clone is a %s" % type(clone).__name__)]
    eq = _quiet(lambda: (clone == v, v == clone, clone != v))
    if eq != (True, True, False):
        out.append(("equal", "clone == value, value == clone, clone != value give %r" % (eq,)))
    hc, hv = _quiet(lambda: hash(clone)), _quiet(lambda: hash(v))
    if isinstance(hc, Exception) != isinstance(hv, Exception) or (not isinstance(hc, Exception) and hc != hv):
        out.append(("hash", "hash(clone) = %s, hash(value) = %s" % (_trim(hc), _trim(hv))))
    elif not isinstance(hc, Exception):
        look = _quiet(lambda: ({v: "k"}.get(clone), {clone: "k"}.get(v), clone in {v}, len({clone, v})))
        if look != ("k", "k", True, 1):
            out.append(("set-dict", "dict lookups both ways / set membership / size of {clone, value} give %s" % _trim(look)))
    kc = _quiet(lambda: tuple(T.observe(clone)))
    if kc != e.key:
        out.append(("components", "clone shows components %s, value was built from %r" % (_trim(kc), e.key)))
    if observe(clone) != observe(v):
        out.append(("observation", "public observations differ: %s vs %s" % (_trim(observe(clone)), _trim(observe(v)))))
    rep = representation_mismatch(clone, v)
    if rep:
        out.append(("representation", "; ".join(rep[:3])))
    return out


CLONE_ROUTES = (("pickle", lambda v: _pickle.loads(_pickle.dumps(v))), ("copy.copy", _copy.copy), ("copy.deepcopy", _copy.deepcopy))

CHILD_SCRIPT = """
import sys
_pad = [bytearray(4096) for _ in range(int(sys.argv[3]))]    # move the heap: object addresses (identity hashes) differ from the parent's
_more = [object() for _ in range(int(sys.argv[3]) * 7)]
from vf.checks import c12
c12.clone_child_main(sys.argv[1], sys.argv[2])
"""


def dump_alphabets():
    """{type name: [(label, pickle bytes or None)]} for every alphabet value of this process."""
    out = {}
    for T in TYPES:
        rows = []
        for e in T.entries:
            try:
                rows.append((e.label, _pickle.dumps(e.value)))
            except Exception:  # noqa: BLE001
                rows.append((e.label, None))
        out[T.name] = rows
    return out


def compare_foreign_alphabets(dumped, direction):
    """Load values pickled by ANOTHER process and compare each with the same value rebuilt here: [(type, label, law, text)]."""
    problems = []
    counts = {"loaded": 0, "not picklable": 0, "unpickle refused": 0}
    for T in TYPES:
        rows = dumped.get(T.name) or []
        by_label = {}
        for e in T.entries:
            by_label.setdefault(e.label, e)
        for label, blob in rows:
            e = by_label.get(label)
            if e is None:
                continue
            if blob is None:
                counts["not picklable"] += 1
                continue
            try:
                clone = _pickle.loads(blob)
            except Exception as x:  # noqa: BLE001
                counts["unpickle refused"] += 1          # same refusal as the in-process pickle route: not clonable, nothing to compare
                continue
            counts["loaded"] += 1
            for law, what in clone_problems(T, clone, e):
                problems.append((T.name, label, law, what))
    return problems, counts


def clone_child_main(in_path, out_path):
    build_all()
    with open(in_path, "rb") as f:
        dumped = _pickle.load(f)
    problems, counts = compare_foreign_alphabets(dumped, "parent->child")
    with open(out_path, "wb") as f:
        _pickle.dump({"problems": problems, "counts": counts, "alphabets": dump_alphabets(),
                      "calendar_hash": hash(ISO), "build_failures": [(t, l, repr(x)) for t, l, x in BUILD_FAILURES]}, f)


def clones_worker(tname):
    return _guarded("clones", tname, _clones_worker, tname)


def _clones_worker(tname, acc):
    """In-process clone routes of every alphabet value of one type."""
    build_all()
    T = TYPE_BY_NAME[tname]
    P = "C12/%s/clone" % T.name
    for e in T.entries:
        for rname, fn in CLONE_ROUTES:
            acc.count(states=1, transitions=1, evaluations=1)
            try:
                c = fn(e.value)          # pickle / copy raise from C code called in this frame: any exception is a refusal
            except Exception as x:  # noqa: BLE001
                c = x
            if isinstance(c, Exception):
                acc.outcome("%s: %s refused (%s)" % (T.name, rname, type(c).__name__))
                continue
            acc.outcome("%s cloned by %s" % (T.name, rname))
            if c is not e.value:
                acc.count(nontrivial=1)
            for law, what in clone_problems(T, c, e):
                acc.violation("%s/%s/%s" % (P, rname, law), "%s of %s: %s" % (rname, e.label, what), {"type": T.name, "values": [e.label], "route": rname})
    return acc


def cross_process_clones(ctx):
    """Pickle every alphabet here, load and compare in a child interpreter whose heap is laid out differently, and the reverse."""
    import os
    import shutil
    import subprocess
    import sys
    import tempfile
    acc = Acc()
    tmp = tempfile.mkdtemp(prefix="vf-c12-clone-")
    try:
        inp, outp = os.path.join(tmp, "parent.pkl"), os.path.join(tmp, "child.pkl")
        with open(inp, "wb") as f:
            _pickle.dump(dump_alphabets(), f)
        pad = 20_000 + 3_001 * (ctx.seed % 7)
        args = [sys.executable] + (["-O"] if sys.flags.optimize else []) + ["-c", CHILD_SCRIPT, inp, outp, str(pad)]
        r = subprocess.run(args, env=dict(os.environ), capture_output=True, text=True)
        if r.returncode != 0 or not os.path.exists(outp):
            raise RuntimeError("clone child failed (exit %d): %s" % (r.returncode, r.stderr[-1500:]))
        with open(outp, "rb") as f:
            res = _pickle.load(f)
        acc.note("cross-process clones", {"parent->child": res["counts"], "child calendar identity hash differs": res["calendar_hash"] != hash(ISO)})
        if res["calendar_hash"] == hash(ISO):
            acc.degrade("cross-process clone route: the child's CalendarSystem.iso has the same identity hash as the parent's (heap padding had no effect)")
        back, counts = compare_foreign_alphabets(res["alphabets"], "child->parent")
        acc.note("cross-process clones (reverse)", {"child->parent": counts})
        n = res["counts"]["loaded"] + counts["loaded"]
        acc.count(states=n, transitions=n, evaluations=n, nontrivial=n)
        for direction, probs in (("parent->child", res["problems"]), ("child->parent", back)):
            for tn, label, law, what in probs:
                acc.violation("C12/%s/clone/cross-process/%s" % (tn, law), "%s pickled in one process and loaded in another (%s): %s" % (label, direction, what),
                              {"type": tn, "values": [label], "route": "cross-process " + direction})
        acc.outcome("cross-process pickle clones compared in both directions")
    finally:
        shutil.rmtree(tmp, ignore_errors=True)
    return acc


# ------------------------------------------------------------------------------------------------ run / replay

def _rot(xs, seed):
    xs = list(xs)
    k = seed % len(xs) if xs else 0
    return xs[k:] + xs[:k]


def run(ctx):
    build_all()
    tier, seed = ctx.tier, ctx.seed
    only = getattr(ctx, "only", None)
    ctx.rule = ("non-trivial = measured count of: ordered pairs that are separately constructed but equal, or differ in exactly one documented "
                "component, or lie in different calendars; triples with three distinct component tuples; call sequences of length 2")
    ctx.assumptions = [
        "documented components of each type are as listed in TypeInfo.keynames (Period: the ten unit fields, not normalised; "
        "Interval/ZoneInterval: an absent bound differs from Instant.min_value/max_value; fixed zone: id, offset, name)",
        "timeline order inside a calendar = (year, month, day[, ns]) with the Hebrew scriptural year running 7..13,1..6",
        "types that define no ordering operators (OffsetDate/Time/DateTime, ZonedDateTime, Interval, DateInterval, Period, ZoneInterval, fixed "
        "zones) are only required to refuse ordering against unrelated types; ZonedDateTime defines == without hash (hash laws not applicable)",
        "compare_to(None) may answer 'greater' (documented .NET convention) or refuse; any exception type counts as refusal",
        "immutability: explicit calls of __init__/__new__/__setattr__ and name-mangled private attributes are outside 'public calls'",
    ]
    for msg in HARNESS_NOTES:
        ctx.degrade(msg)
    if not only or "algebra" in only:
        for acc in pmap(algebra_worker, _rot([t.name for t in TYPES], seed), ctx.procs):
            ctx.merge_part("algebra", acc)
    if not only or "numeric" in only:
        for acc in pmap(numeric_worker, _rot([t.name for t in TYPES], seed), ctx.procs):
            ctx.merge_part("numeric-argument", acc)
    if not only or "clones" in only:
        for acc in pmap(clones_worker, _rot([t.name for t in TYPES], seed), ctx.procs):
            ctx.merge_part("clone routes (in-process)", acc)
        ctx.merge_part("clone routes (cross-process)", cross_process_clones(ctx))
    if not only or "immutability" in only:
        jobs = []
        for T in TYPES:
            n = len(T.entries)
            if n == 0:
                continue
            if tier == "quick":
                idxs = sorted({0, n // 4, n // 2, (3 * n) // 4, n - 1, (seed * 7 + 3) % n})
                ctx.cap("quick tier: immutability sequences run on 5-6 operands per type (quartile positions of the alphabet + one seed-chosen) with at most 2 "
                        "argument combinations per member; thorough runs every alphabet value with up to 6")
            else:
                idxs = list(range(n))
            for i in idxs:
                jobs.append((tier, T.name, [i]))
        for acc in pmap(immut_worker, _rot(jobs, seed), ctx.procs):
            ctx.merge_part("immutability", acc)
    ctx.note("types", [t.name for t in TYPES])
    ctx.exhaustive = not ctx.caps and not only


def replay(rec) -> bool:
    build_all()
    case = rec.get("case") or {}
    if "case" in case and isinstance(case["case"], dict):
        case = case["case"]
    tname = case.get("type")
    if tname not in TYPE_BY_NAME:
        return False
    if "sequence" in case:
        T = TYPE_BY_NAME[tname]
        idx = [i for i, e in enumerate(T.entries) if e.label == case["value"]]
        a = immut_worker(("thorough", tname, idx[:1]))
    else:
        a = algebra_worker(tname)
    return rec.get("key") in a.violations or bool(a.violations)
