"""C01 - every calendar maps day numbers to valid dates one-to-one and in order.

The calendar is treated as a transition system: state = (calendar, day number), transition = next day.
The chain is walked on the real code; per-state and per-transition invariants count the structure
(month lengths, month sets, year lengths, day-of-year) instead of trusting the calendar's tables.
"""
from __future__ import annotations

import datetime as _dt

from pyoda_time import CalendarSystem, Instant, LocalDate, Period

from vf.core import impl
from vf.core.evidence import Acc
from vf.core.par import chunks, pmap
from vf.models.calref import civil_from_days

LEVEL = "model_checking"
WARM = 800          # days walked before a shard's first counted state so that the year in progress has been seen from its start
ISO = CalendarSystem.iso


def _iso_fields(n):
    if -719162 <= n <= 2932896:
        d = _dt.date.fromordinal(n + 719163)
        return d.year, d.month, d.day
    return civil_from_days(n)


def _py_day(cal_id, n):
    return ("from pyoda_time import CalendarSystem, Instant, LocalDate, Period\n\ndef test_replay():\n"
            "    cal = CalendarSystem.for_id(%r)\n    epoch = LocalDate(1970, 1, 1).with_calendar(cal)\n"
            "    d = epoch.plus_days(%d)\n    assert Period.days_between(epoch, d) == %d\n"
            "    assert LocalDate(d.year, d.month, d.day, cal) == d\n"
            "    assert d.with_calendar(CalendarSystem.iso).with_calendar(cal) == d\n"
            "    assert d.plus_days(-1) < d and d.plus_days(-1).plus_days(1) == d\n" % (cal_id, n, n))


def walk(cal_id, a, b, acc: Acc, warm=WARM):
    """walk days [a, b) of the calendar (plus a warm-up prefix that only establishes the year state)"""
    cal = CalendarSystem.for_id(cal_id)
    lo, hi = impl.day_range(cal)
    start = max(lo, a - warm)
    prev = None
    year_state = None     # [year, first day number, months seen in order]
    iso_cal = ISO
    is_iso = cal is iso_cal

    def V(law, year, what, n):
        acc.violation("C01/%s/%s/y%s" % (cal_id, law, year), what, {"calendar": cal_id, "day": n}, py=_py_day(cal_id, n))

    for n in range(start, b):
        counted = n >= a
        if counted:
            acc.count(states=1, transitions=1)
        try:
            ld = impl.date_from_days(cal, n)
            y, m, d = ld.year, ld.month, ld.day
        except Exception as e:  # noqa: BLE001
            if counted:
                V("from-days-raises-%s" % type(e).__name__, "?", "day %d inside [%d, %d] is rejected: %s" % (n, lo, hi, str(e)[:120]), n)
            prev = None
            year_state = None
            continue
        if counted:
            try:
                acc.count(evaluations=6)
                back = impl.days_of(ld)
                if back != n:
                    V("roundtrip", y, "day %d -> %d-%d-%d -> day %d" % (n, y, m, d, back), n)
                c2 = LocalDate(y, m, d, cal)
                if not (c2 == ld) or impl.days_of(c2) != n or hash(c2) != hash(ld):
                    V("ctor", y, "LocalDate(%d, %d, %d) differs from the date of day %d" % (y, m, d, n), n)
                if not (cal.min_year <= y <= cal.max_year):
                    V("year-range", y, "day %d has year %d outside [%d, %d]" % (n, y, cal.min_year, cal.max_year), n)
                miy = cal.get_months_in_year(y)
                dim = cal.get_days_in_month(y, m)
                if not (1 <= m <= miy and 1 <= d <= dim):
                    V("field-range", y, "day %d -> %d-%d-%d but months-in-year %d, days-in-month %d" % (n, y, m, d, miy, dim), n)
                # through ISO and back, with an independent ISO date for day n
                iy, im, idd = _iso_fields(n)
                if not is_iso:
                    iso_d = ld.with_calendar(iso_cal)
                    if (iso_d.year, iso_d.month, iso_d.day) != (iy, im, idd):
                        V("to-iso", y, "%d-%d-%d converts to ISO %d-%d-%d, day %d is ISO %d-%d-%d" % (y, m, d, iso_d.year, iso_d.month, iso_d.day, n, iy, im, idd), n)
                    if not (iso_d.with_calendar(cal) == ld):
                        V("iso-and-back", y, "%d-%d-%d -> ISO -> back is not the identity" % (y, m, d), n)
                    if not (LocalDate(iy, im, idd).with_calendar(cal) == ld):
                        V("from-iso", y, "ISO %d-%d-%d converts to something other than %d-%d-%d" % (iy, im, idd, y, m, d), n)
                else:
                    if (y, m, d) != (iy, im, idd):
                        V("iso-fields", y, "day %d is ISO %d-%d-%d, implementation says %d-%d-%d" % (n, iy, im, idd, y, m, d), n)
                    # the calendar-less route used by Instant / LocalDateTime / OffsetDateTime for ISO values
                    alt = Instant.from_unix_time_seconds(n * 86400).in_utc().date
                    if (alt.year, alt.month, alt.day) != (iy, im, idd) or not (alt == ld):
                        V("iso-instant-route", y, "Instant at day %d renders in UTC as %d-%d-%d, expected %d-%d-%d" % (n, alt.year, alt.month, alt.day, iy, im, idd), n)
            except Exception as e:  # noqa: BLE001
                acc.lib_exception("C01/%s/state/y%s" % (cal_id, y), e, {"calendar": cal_id, "day": n})
        if prev is not None:
            py_, pm, pd, pld = prev
            if counted:
                try:
                    acc.count(evaluations=4)
                    if not (ld > pld and pld < ld and ld >= pld and pld <= ld and ld != pld and not (ld == pld)
                            and not (ld < pld) and not (pld > ld) and ld.compare_to(pld) > 0 and pld.compare_to(ld) < 0):
                        V("order", y, "%d-%d-%d (day %d) is not strictly after %d-%d-%d" % (y, m, d, n, py_, pm, pd), n)
                    if LocalDate.max(pld, ld) is not ld or LocalDate.max(ld, pld) is not ld or LocalDate.min(pld, ld) is not pld or LocalDate.min(ld, pld) is not pld:
                        V("order-max-min", y, "LocalDate.max/min of day %d (%d-%d-%d) and day %d (%d-%d-%d) do not pick the later/earlier day" % (n - 1, py_, pm, pd, n, y, m, d), n)
                    if not (pld.plus_days(1) == ld) or not (ld.plus_days(-1) == pld):
                        V("successor", y, "plus_days(+-1) does not connect day %d and day %d" % (n - 1, n), n)
                    if Period.days_between(pld, ld) != 1:
                        V("days-between", y, "days_between(day %d, day %d) = %d" % (n - 1, n, Period.days_between(pld, ld)), n)
                except Exception as e:  # noqa: BLE001
                    acc.lib_exception("C01/%s/transition/y%s" % (cal_id, y), e, {"calendar": cal_id, "day": n})
            if (y, m) == (py_, pm):
                if d != pd + 1 and counted:
                    V("day-step", y, "day after %d-%d-%d is %d-%d-%d" % (py_, pm, pd, y, m, d), n)
            else:
                try:
                    if counted:
                        if d != 1:
                            V("month-start", y, "month %d-%d starts with day %d" % (y, m, d), n)
                        pdim = cal.get_days_in_month(py_, pm)
                        if pd != pdim:
                            V("month-length", py_, "month %d-%d ended after day %d, get_days_in_month says %d" % (py_, pm, pd, pdim), n)
                    if y == py_:
                        if year_state is not None:
                            if m in year_state[2] and counted:
                                V("month-repeat", y, "month %d occurs twice in year %d" % (m, y), n)
                            year_state[2].append(m)
                    else:
                        if counted:
                            if y != py_ + 1:
                                V("year-step", y, "year after %d is %d" % (py_, y), n)
                            if year_state is not None and year_state[0] == py_:
                                cnt = n - year_state[1]
                                diy = cal.get_days_in_year(py_)
                                if cnt != diy:
                                    V("year-length", py_, "year %d has %d days between year starts, get_days_in_year says %d" % (py_, cnt, diy), n)
                                pmiy = cal.get_months_in_year(py_)
                                if sorted(year_state[2]) != list(range(1, pmiy + 1)):
                                    V("month-set", py_, "year %d showed months %r, get_months_in_year says %d" % (py_, year_state[2], pmiy), n)
                                acc.count(nontrivial=1)
                        year_state = [y, n, [m]]
                        if counted:
                            _era_checks(cal, cal_id, ld, y, m, d, n, acc, V)
                except Exception as e:  # noqa: BLE001
                    acc.lib_exception("C01/%s/structure/y%s" % (cal_id, y), e, {"calendar": cal_id, "day": n})
            if counted and year_state is not None and year_state[0] == y:
                try:
                    doy = ld.day_of_year
                    if doy != n - year_state[1] + 1:
                        V("day-of-year", y, "%d-%d-%d reports day-of-year %d, counted %d" % (y, m, d, doy, n - year_state[1] + 1), n)
                except Exception as e:  # noqa: BLE001
                    acc.lib_exception("C01/%s/day-of-year/y%s" % (cal_id, y), e, {"calendar": cal_id, "day": n})
        elif n == lo:
            year_state = [y, n, [m]]
            if counted:
                try:
                    _era_checks(cal, cal_id, ld, y, m, d, n, acc, V)
                    if ld.day_of_year != 1:
                        V("day-of-year", y, "first day of the calendar reports day-of-year %d" % ld.day_of_year, n)
                except Exception as e:  # noqa: BLE001
                    acc.lib_exception("C01/%s/first-day" % cal_id, e, {"calendar": cal_id, "day": n})
        prev = (y, m, d, ld)
    return acc


def _era_checks(cal, cal_id, ld, y, m, d, n, acc, V):
    acc.count(evaluations=3)
    eras = list(cal.eras())
    era = ld.era
    yoe = ld.year_of_era
    if era not in eras:
        V("eras", y, "era %r of %d-%d-%d is not listed by eras() %r" % (era, y, m, d, eras), n)
    ay = cal.get_absolute_year(yoe, era)
    if ay != y:
        V("era-year", y, "get_absolute_year(%d, %r) = %d, expected %d" % (yoe, era, ay, y), n)
    e2 = LocalDate(yoe, m, d, cal, era) if _era_ctor_ok() else None
    if e2 is not None and not (e2 == ld):
        V("era-ctor", y, "LocalDate(era=%r, year_of_era=%d, %d, %d) differs from %d-%d-%d" % (era, yoe, m, d, y, m, d), n)


_ERA_CTOR = [None]


def _era_ctor_ok():
    if _ERA_CTOR[0] is None:
        try:
            from pyoda_time.calendars import Era
            _ERA_CTOR[0] = LocalDate(1, 1, 1, CalendarSystem.iso, Era.common) == LocalDate(1, 1, 1)
        except Exception:  # noqa: BLE001
            _ERA_CTOR[0] = False
    return _ERA_CTOR[0]


def _walk_shard(arg):
    cal_id, a, b = arg
    acc = Acc()
    walk(cal_id, a, b, acc)
    acc.outcome("walked:%s" % cal_id, b - a)
    try:
        cal = CalendarSystem.for_id(cal_id)
        d0 = impl.date_from_days(cal, a)
        acc.sample({"state": {"calendar": cal_id, "day": a}, "date": [d0.year, d0.month, d0.day], "iso": list(_iso_fields(a)), "block_end": b})
    except Exception:  # noqa: BLE001
        pass
    return acc


# ---- every month of every year (quick tier's complete-but-coarse pass) ---------------------------------

def _months_shard(arg):
    cal_id, y0, y1 = arg
    acc = Acc()
    cal = CalendarSystem.for_id(cal_id)
    lo, hi = impl.day_range(cal)
    for y in range(y0, y1):
        try:
            miy = cal.get_months_in_year(y)
            recs = []
            for m in range(1, miy + 1):
                dim = cal.get_days_in_month(y, m)
                first = LocalDate(y, m, 1, cal)
                last = LocalDate(y, m, dim, cal)
                nf, nl = impl.days_of(first), impl.days_of(last)
                acc.count(states=2, transitions=1, evaluations=6)
                if nl - nf != dim - 1:
                    acc.violation("C01/%s/month-span/y%d" % (cal_id, y), "%d-%d spans days %d..%d but has %d days" % (y, m, nf, nl, dim), {"calendar": cal_id, "year": y, "month": m})
                for nn, dd in ((nf, 1), (nl, dim)):
                    if not (lo <= nn <= hi):
                        acc.violation("C01/%s/range/y%d" % (cal_id, y), "accepted date %d-%d-%d is day %d outside the advertised range [%d, %d]" % (y, m, dd, nn, lo, hi), {"calendar": cal_id, "year": y, "month": m})
                        continue
                    bk = impl.date_from_days(cal, nn)
                    if (bk.year, bk.month, bk.day) != (y, m, dd):
                        acc.violation("C01/%s/ymd-roundtrip/y%d" % (cal_id, y), "%d-%d-%d -> day %d -> %d-%d-%d" % (y, m, dd, nn, bk.year, bk.month, bk.day), {"calendar": cal_id, "day": nn}, py=_py_day(cal_id, nn))
                recs.append((nf, nl, m))
                # every construction route: the era / year-of-era form must accept exactly the same (month, day) range
                if _era_ctor_ok():
                    era, yoe = last.era, last.year_of_era
                    acc.count(evaluations=2)
                    via_era = LocalDate(yoe, m, dim, cal, era)
                    if not (via_era == last):
                        acc.violation("C01/%s/era-ctor/y%d" % (cal_id, y), "LocalDate(era=%r, year_of_era=%d, %d, %d) differs from %d-%d-%d" % (era, yoe, m, dim, y, m, dim),
                                      {"calendar": cal_id, "ymd": [y, m, dim]})
                    _must_raise(acc, "C01/%s/era-ctor-accepts-bad-day/y%d" % (cal_id, y), "LocalDate(era=%r, year_of_era=%d, %d, %d) (month has %d days)" % (era, yoe, m, dim + 1, dim),
                                lambda m=m, dim=dim, yoe=yoe, era=era: LocalDate(yoe, m, dim + 1, cal, era), {"calendar": cal_id, "ymd": [y, m, dim + 1]})
            recs.sort()
            for (f1, l1, m1), (f2, l2, m2) in zip(recs, recs[1:]):
                # the static helpers must follow the day line too (month NUMBERS need not be monotonic in time: Hebrew Scriptural)
                a_, b_ = impl.date_from_days(cal, l1), impl.date_from_days(cal, f2)
                acc.count(evaluations=2)
                if LocalDate.max(a_, b_) is not b_ or LocalDate.min(b_, a_) is not a_ or not (a_ < b_):
                    acc.violation("C01/%s/order-max-min/y%d" % (cal_id, y), "LocalDate.max/min/< of the last day of month %d and the first day of month %d of year %d disagree with the day line" % (m1, m2, y),
                                  {"calendar": cal_id, "days": [l1, f2]})
                if f2 != l1 + 1:
                    acc.violation("C01/%s/month-abut/y%d" % (cal_id, y), "months %d and %d of year %d do not abut (%d then %d)" % (m1, m2, y, l1, f2), {"calendar": cal_id, "year": y})
            diy = cal.get_days_in_year(y)
            if recs and recs[-1][1] - recs[0][0] + 1 != diy:
                acc.violation("C01/%s/year-length/y%d" % (cal_id, y), "months of year %d cover %d days, get_days_in_year says %d" % (y, recs[-1][1] - recs[0][0] + 1, diy), {"calendar": cal_id, "year": y})
            if y + 1 <= cal.max_year:
                nxt = min(impl.days_of(LocalDate(y + 1, mm, 1, cal)) for mm in range(1, cal.get_months_in_year(y + 1) + 1))
                if nxt != recs[-1][1] + 1:
                    acc.violation("C01/%s/year-abut/y%d" % (cal_id, y), "year %d ends on day %d, year %d starts on day %d" % (y, recs[-1][1], y + 1, nxt), {"calendar": cal_id, "year": y})
            acc.count(nontrivial=1)
            _rejections(cal, cal_id, y, miy, acc)
        except Exception as e:  # noqa: BLE001
            acc.lib_exception("C01/%s/months/y%d" % (cal_id, y), e, {"calendar": cal_id, "year": y})
    return acc


# ---- order independence of the year tables (state carried between calls must not change the mapping) ----------------

def _year_shape(cal, y):
    miy = cal.get_months_in_year(y)
    starts = (impl.days_of(LocalDate(y, 1, 1, cal)), impl.days_of(LocalDate(y, miy, 1, cal)))
    return (cal.get_days_in_year(y), bool(cal.is_leap_year(y)), tuple(cal.get_days_in_month(y, m) for m in range(1, miy + 1)), starts)


def _order_shard(cal_id):
    """The mapping must not depend on the order in which years are visited: compute every year's table in three visiting
    orders inside ONE process (descending; by cache slot - years 1024 apart visited consecutively, descending; ascending)
    and demand identical tables, each also consistent with itself (month starts + lengths tile the year)."""
    acc = Acc()
    cal = CalendarSystem.for_id(cal_id)
    years = list(range(cal.min_year, cal.max_year + 1))
    orders = {
        "descending": list(reversed(years)),
        "by-cache-slot": [y for r in range(1024) for y in range(cal.max_year - ((cal.max_year - r) % 1024), cal.min_year - 1, -1024)],
        "ascending": years,
    }
    tables = {}
    for name, order in orders.items():
        t = {}
        for y in order:
            acc.count(transitions=1, evaluations=1)
            try:
                t[y] = _year_shape(cal, y)
            except Exception as e:  # noqa: BLE001
                acc.lib_exception("C01/%s/order-%s/y%d" % (cal_id, name, y), e, {"calendar": cal_id, "year": y, "order": name})
        tables[name] = t
        for y, (diy, leap, lens, starts) in t.items():
            if sum(lens) != diy:
                acc.violation("C01/%s/order-%s-inconsistent/y%d" % (cal_id, name, y), "visiting years %s: year %d has %d days but its months sum to %d" % (name, y, diy, sum(lens)),
                              {"calendar": cal_id, "year": y, "order": name})
    base = tables["ascending"]
    for name in ("descending", "by-cache-slot"):
        for y, v in tables[name].items():
            if y in base and base[y] != v:
                acc.violation("C01/%s/order-dependent/y%d" % (cal_id, y), "year %d: table computed while visiting years %s = %r, ascending = %r" % (y, name, v, base[y]),
                              {"calendar": cal_id, "year": y, "order": name})
    acc.count(states=len(years), nontrivial=len(years))
    acc.outcome("order-independent:%s" % cal_id)
    return acc


def _must_raise(acc, key, what, fn, case):
    acc.count(evaluations=1)
    try:
        r = fn()
    except Exception:  # noqa: BLE001  (the property says "rejected", any exception type will do)
        acc.outcome("rejected")
        return
    acc.violation(key, "%s was accepted and mapped to %r" % (what, r), case)


def _rejections(cal, cal_id, y, miy, acc):
    full = (y % 16 == 0) or y <= cal.min_year + 2 or y >= cal.max_year - 2
    for (mm, dd) in ([(0, 1), (miy + 1, 1), (-1, 1)] if full else [(miy + 1, 1)]):
        _must_raise(acc, "C01/%s/accepts-bad-month/y%d" % (cal_id, y), "LocalDate(%d, %d, %d)" % (y, mm, dd),
                    lambda mm=mm, dd=dd: LocalDate(y, mm, dd, cal), {"calendar": cal_id, "ymd": [y, mm, dd]})
    for m in range(1, miy + 1):
        dim = cal.get_days_in_month(y, m)
        for dd in ((0, dim + 1, -1, 32 if dim < 31 else 33) if full else (dim + 1,)):
            _must_raise(acc, "C01/%s/accepts-bad-day/y%d" % (cal_id, y), "LocalDate(%d, %d, %d) (month has %d days)" % (y, m, dd, dim),
                        lambda m=m, dd=dd: LocalDate(y, m, dd, cal), {"calendar": cal_id, "ymd": [y, m, dd]})


def _range_checks(cal_id, acc):
    cal = CalendarSystem.for_id(cal_id)
    try:
        plo, phi = impl._range_public(cal)
        lo, hi = impl.day_range(cal)
        acc.count(states=1, evaluations=2)
        if (plo, phi) != (lo, hi):
            acc.violation("C01/%s/range/advertised" % cal_id, "advertised day range [%d, %d] differs from the days of the first/last valid dates [%d, %d]" % (lo, hi, plo, phi),
                          {"calendar": cal_id})
        for n in (lo - 1, hi + 1, lo - 2, hi + 2, lo - 400, hi + 400, -10**9, 10**9):
            _must_raise(acc, "C01/%s/range/accepts-day-%s" % (cal_id, "below-min" if n < lo else "above-max"), "day %d outside [%d, %d]" % (n, lo, hi),
                        lambda n=n: impl.date_from_days(cal, n), {"calendar": cal_id, "day": n})
        for y in (cal.min_year - 1, cal.max_year + 1, cal.min_year - 2, cal.max_year + 2):
            _must_raise(acc, "C01/%s/range/accepts-year" % cal_id, "LocalDate(%d, 1, 1)" % y, lambda y=y: LocalDate(y, 1, 1, cal), {"calendar": cal_id, "year": y})
        # every era constant that the calendar does not list must be refused (also eras of OTHER calendars with the same name)
        try:
            from pyoda_time.calendars import Era
            all_eras = [v for k, v in vars(type(Era)).items() if not k.startswith("_") and isinstance(getattr(Era, k, None), Era)]
            all_eras = [getattr(Era, k) for k in dir(type(Era)) if not k.startswith("_") and isinstance(getattr(Era, k, None), Era)]
            own = list(cal.eras())
            for era in all_eras:
                if any(era is o for o in own):
                    continue
                for what, fn in (("get_absolute_year", lambda era=era: cal.get_absolute_year(1, era)),
                                 ("get_min_year_of_era", lambda era=era: cal.get_min_year_of_era(era)),
                                 ("get_max_year_of_era", lambda era=era: cal.get_max_year_of_era(era)),
                                 ("LocalDate(era=)", lambda era=era: LocalDate(max(1, cal.min_year), 1, 1, cal, era))):
                    _must_raise(acc, "C01/%s/eras/foreign-era-accepted/%s" % (cal_id, what), "%s with era %s which the calendar does not list" % (what, era.name), fn,
                                {"calendar": cal_id, "era": era.name})
        except ImportError:
            pass
        # ISO dates one day outside the target range must not convert
        for n in (lo - 1, hi + 1):
            try:
                iso_d = impl.date_from_days(ISO, n)
            except Exception:  # noqa: BLE001
                continue
            if cal is not ISO:
                _must_raise(acc, "C01/%s/range/with-calendar" % cal_id, "ISO day %d converted with with_calendar" % n, lambda iso_d=iso_d: iso_d.with_calendar(cal), {"calendar": cal_id, "day": n})
    except Exception as e:  # noqa: BLE001
        acc.lib_exception("C01/%s/range" % cal_id, e, {"calendar": cal_id})


def quick_blocks(cal, seed):
    lo, hi = impl.day_range(cal)
    total = hi - lo + 1
    if total <= 400_000:
        return [(a, b) for a, b in chunks(lo, hi + 1, 60_000)]
    blocks = []

    def add(a, b):
        a, b = max(lo, a), min(hi + 1, b)
        if a < b:
            blocks.append((a, b))
    add(lo, lo + 800)
    add(hi - 800, hi + 1)
    for c in (0, -3, -25567, 47482, -719162, -719528):
        add(c - 760, c + 760)
    span = total - 30_000
    s = lo + (seed * 104_729 + 31_337) % span
    add(s, s + 30_000)
    return blocks


def run(ctx):
    ids = list(CalendarSystem.ids)
    ctx.note("calendar_ids", ids)
    for d in impl.DEGRADED:
        ctx.degrade(d)
    ctx.rule = ("state = (calendar, day number); every state in the walked ranges is converted day->date->day, through the constructor, through ISO and back, "
                "ordered against its predecessor; month/year structure is counted along the walk; non-trivial = completed (calendar, year) structures verified "
                "plus (calendar, year) month tables verified")
    ctx.assumptions = ["ISO fields of a day number come from datetime.date (years 1-9999) or an independent civil-from-days formula",
                       "positioning of blocks uses the implementation's own range; verdicts do not"]
    acc = Acc()
    for i in ids:
        _range_checks(i, acc)
    ctx.merge_part("range_rejection", acc)
    jobs = []
    for i in ids:
        cal = CalendarSystem.for_id(i)
        for a, b in chunks(cal.min_year, cal.max_year + 1, 400):
            jobs.append((i, a, b))
    for acc in pmap(_months_shard, jobs, chunksize=2):
        ctx.merge_part("months_of_every_year", acc)
    for acc in pmap(_order_shard, ids):
        ctx.merge_part("year_tables_order_independent", acc)
    jobs = []
    for i in ids:
        cal = CalendarSystem.for_id(i)
        lo, hi = impl.day_range(cal)
        if ctx.tier == "thorough":
            jobs += [(i, a, b) for a, b in chunks(lo, hi + 1, 150_000)]
        else:
            jobs += [(i, a, b) for a, b in quick_blocks(cal, ctx.seed)]
    for acc in pmap(_walk_shard, jobs):
        ctx.merge_part("day_walk", acc)
    ctx.sample({"walk_blocks": jobs[:6], "total_blocks": len(jobs)})
    ctx.exhaustive = ctx.tier == "thorough"
    if ctx.tier != "thorough":
        ctx.cap("day walk limited to boundary blocks, small calendars completely, and one seed-positioned 30000-day block per calendar; month tables of every year are complete")


def replay(rec):
    case = rec.get("case") or {}
    acc = Acc()
    if "day" in case and "calendar" in case:
        walk(case["calendar"], case["day"] - 2, case["day"] + 2, acc)
    for k, v in acc.violations.items():
        print(k, v[0])
    return bool(acc.violations)
