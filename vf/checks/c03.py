"""C03 - Duration, Instant and Offset do exact integer arithmetic (explicit-state exploration against Python ints).

Reference model: vf/models/intarith.py (a Duration is an int of nanoseconds, an Instant an int of nanoseconds since
the Unix epoch, an Offset an int of seconds).  Every value the implementation returns is checked for the normal form
(0 <= nanosecond-of-floor-day < one day, floor days inside the range) and against the exact integer result; a model
result outside the documented range must raise ValueError/OverflowError.

Parts
  duration-values   every alphabet value: construction, normal form, every accessor, unary minus, scalar * and /
  duration-factory  every from_<unit>(n) (int and exactly representable float n) over the unit-count alphabet
  duration-pairs    all ordered pairs of the alphabet: + - comparisons min/max ratio        (BFS level 1)
  duration-closure  results that are new values re-enter: accessors + ops against the core alphabet (levels 2..D)
  instant           aware datetime -> Instant incl. sub-second utc offsets; unix conversions (floor), +/- Duration, Instant - Instant, plus_*, from_utc, safe +/- at the ends
  offset            all 129 601 offsets: accessors/negation; from_<unit> truncation and range; + and - with range
"""
from __future__ import annotations

import datetime as _dt
import functools
from fractions import Fraction

from pyoda_time import Duration, Instant, Offset

from vf.core.evidence import Acc, exc_origin
from vf.core.par import pmap
from vf.models import intarith as M
from vf.models import tzcases as TZ
from vf.models.valbind import kw_forms, kw_ok

LEVEL = "model_checking"
RANGE_EXC = (ValueError, OverflowError)

NSD = M.NS_DAY
K_DAYS = (1, 2, 2 ** 24 - 1, 2 ** 24, 106752, 170_000_000, 2 ** 28, 270_000_000, 2 ** 29, 999_999_999, 10 ** 9,
          2 ** 30 - 2, 2 ** 30 - 1)
DELTAS = (-100, -1, 0, 1, 100)
SCALARS = (1, -1, 2, -2, 3, -3, 7, -7, 10 ** 9, -(10 ** 9), 2 ** 63 + 1, -(2 ** 63 + 1), 0)
# numeric-tower boundaries (C int / double / beyond-double ints) with their +/-1 neighbours: full set for the alphabet values,
# a few representatives for the closure levels
TOWER_SCALARS = tuple(M.tower(True))
CLOSURE_TOWER = (2 ** 31, -(2 ** 32), 2 ** 53 + 1, 2 ** 1024, -(10 ** 400))
_TD_MIN_US = -999_999_999 * 86400 * 10 ** 6
_TD_MAX_US = (999_999_999 + 1) * 86400 * 10 ** 6 - 1
FLOATS = (0.5, -0.5, 1.5, -1.5, 0.0009765625, -2.25, 3.0, -0.0)


# ---------------------------------------------------------------------------------------------------- alphabets
def dur_alphabet():
    v = {0, 1, -1, M.DUR_MIN_NS, M.DUR_MIN_NS + 1, M.DUR_MAX_NS - 1, M.DUR_MAX_NS, 2 ** 63 - 1, 2 ** 63, -(2 ** 63),
         -(2 ** 63) - 1, 2 ** 64 + 1}
    for u in (M.NS_TICK, M.NS_US, M.NS_MS, M.NS_S, M.NS_MIN, M.NS_H, M.NS_DAY, M.NS_WEEK):
        for x in (u - 1, u, u + 1):
            v.add(x)
            v.add(-x)
    for k in K_DAYS:
        for d in DELTAS:
            for s in (1, -1):
                x = s * (k * NSD + d)
                if M.in_dur(x):
                    v.add(x)
    return sorted(v, key=lambda x: (abs(x), x))


def dur_core():
    return [0, 1, -1, 100, -100, NSD - 1, -(NSD - 1), NSD, -NSD, NSD + 1, 12 * M.NS_H, M.DUR_MIN_NS, M.DUR_MAX_NS,
            -(2 ** 29) * NSD + 1]


def unit_counts(unit):
    """unit counts for from_<unit>: around every k-day multiple, the documented range ends, one step beyond, huge"""
    uns = M.UNIT_NS[unit]
    upd = NSD // uns
    lo = M.DUR_MIN_DAYS * upd
    hi = (M.DUR_MAX_DAYS + 1) * upd - 1
    v = {0, 1, -1, lo - 1, lo, lo + 1, hi - 1, hi, hi + 1, 10 ** 22, -(10 ** 22), 2 ** 63, -(2 ** 63) - 1, 2 ** 64 + 1,
         -(2 ** 64) - 1, 10 ** 30}
    v.update(M.tower(False))
    for k in K_DAYS + (2 ** 30, 2 ** 30 + 1):
        for d in (-1, 0, 1):
            v.add(k * upd + d)
            v.add(-(k * upd + d))
    if upd > 1:
        for x in (upd - 1, upd + 1):
            v.add(x)
            v.add(-x)
    return sorted(v, key=lambda x: (abs(x), x))


def inst_alphabet():
    v = set()
    for base in (M.INST_MIN_NS, M.BCL_EPOCH_DAYS * NSD, 0, M.INST_MAX_NS + 1):
        for d in (-NSD - 1, -NSD, -NSD + 1, -M.NS_S - 1, -M.NS_S, -M.NS_S + 1, -M.NS_MS - 1, -M.NS_MS, -M.NS_MS + 1,
                  -1001, -1000, -999, -101, -100, -99, -1, 0, 1, 99, 100, 101, 999, 1000, 1001, M.NS_MS - 1, M.NS_MS,
                  M.NS_MS + 1, M.NS_S - 1, M.NS_S, M.NS_S + 1, NSD - 1, NSD, NSD + 1):
            x = base + d
            if M.in_inst(x):
                v.add(x)
    for x in (2 ** 63 - 1, 2 ** 63, -(2 ** 63), -(2 ** 63) - 1, 951_782_400 * M.NS_S + 123_456_789):
        v.add(x)
    return sorted(v)


def off_alphabet():
    v = {0, 1, -1, 59, -59, 60, -60, 61, 3599, 3600, 3601, -3599, -3600, -3601, 19800, -19800, 45 * 60 + 12 * 3600 + 1,
         9 * 3600, -9 * 3600, M.OFF_MAX_S, M.OFF_MAX_S - 1, M.OFF_MIN_S, M.OFF_MIN_S + 1, 32400 + 1, -32400 - 1}
    return sorted(v)


# ---------------------------------------------------------------------------------------------------- helpers
def sgn(x):
    return "neg" if x < 0 else ("pos" if x > 0 else "zero")


def mag(x):
    b = abs(int(x)).bit_length()
    return "2^%d" % (4 * (b // 4))


def vclass(ns):
    return "%s,%s" % (sgn(ns), "whole-days" if ns % NSD == 0 else "frac")


def nod_rel(a, b):
    x, y = a % NSD, b % NSD
    return "nod-lt" if x < y else ("nod-eq" if x == y else "nod-gt")


def normal_form(acc, d):
    """None when fine, else a description.  Uses the private split; degrades to public observation if it is gone."""
    try:
        fd, nd = d._floor_days, d._nanosecond_of_floor_day
    except AttributeError:
        acc.degrade("Duration._floor_days/_nanosecond_of_floor_day not reachable: normal form judged from public accessors only")
        return None
    if not (0 <= nd < NSD):
        return "nanosecond-of-floor-day %d outside [0, 86400e9) (floor days %d)" % (nd, fd)
    if not (M.DUR_MIN_DAYS <= fd <= M.DUR_MAX_DAYS):
        return "floor days %d outside [%d, %d]" % (fd, M.DUR_MIN_DAYS, M.DUR_MAX_DAYS)
    return None


def check_dur(acc, d, exp, prefix, cls, case, py=None):
    """A Duration returned by the implementation must be the exact model value in normal form.  One key per failure."""
    if not isinstance(d, Duration):
        acc.violation("%s/type/%s" % (prefix, cls), "returned %r instead of a Duration" % (d,), case, py)
        return False
    nf = normal_form(acc, d)
    if nf is not None:
        acc.violation("%s/normal-form/%s" % (prefix, cls), "%s; exact result %d ns" % (nf, exp), case, py)
        return False
    got = d.to_nanoseconds()
    if got != exp:
        acc.violation("%s/value/%s" % (prefix, cls), "to_nanoseconds() == %d, exact result %d" % (got, exp), case, py)
        return False
    # public view of the normal form (also the only view when the private split is unreachable)
    dd, nn = d.days, d.nanosecond_of_day
    if dd != M.tdiv(exp, NSD) or nn != M.trem(exp, NSD):
        acc.violation("%s/days-nod/%s" % (prefix, cls), "days/nanosecond_of_day == (%d, %d), exact (%d, %d)" % (
            dd, nn, M.tdiv(exp, NSD), M.trem(exp, NSD)), case, py)
        return False
    return True


def expect(acc, fn, exp_ok, exp, prefix, cls, case, py=None, kind="dur"):
    """Run fn(); exp_ok False => must raise ValueError/OverflowError; else compare the returned value with exp."""
    acc.count(transitions=1, evaluations=1)
    try:
        r = fn()
    except RANGE_EXC as e:
        if exc_origin(e) == "harness":
            raise
        if exp_ok:
            acc.violation("%s/raises-in-range/%s" % (prefix, cls), "raised %s: %s but the exact result %r is in range" % (
                type(e).__name__, str(e)[:120], exp), case, py)
            return None
        acc.outcome("raise:" + type(e).__name__)
        return None
    except Exception as e:  # noqa: BLE001
        if exc_origin(e) == "harness":
            raise
        if exp_ok:
            acc.lib_exception(prefix, e, case)
        else:
            acc.violation("%s/wrong-exception-%s/%s" % (prefix, type(e).__name__, cls),
                          "out-of-range result must raise ValueError/OverflowError, raised %s: %s" % (type(e).__name__, str(e)[:120]), case, py)
        return None
    if not exp_ok:
        shown = r.to_nanoseconds() if isinstance(r, Duration) else r
        acc.violation("%s/no-raise/%s" % (prefix, cls), "exact result %r is outside the range but %r was returned" % (exp, shown), case, py)
        return None
    acc.outcome("value")
    if kind == "dur":
        return r if check_dur(acc, r, exp, prefix, cls, case, py) else None
    return r


def mk(ns):
    return Duration.from_nanoseconds(ns)


def worker(fn):
    """worker-level net: a library exception escaping the per-item guards becomes a violation of that shard"""
    @functools.wraps(fn)
    def w(job):
        try:
            return fn(job)
        except Exception as e:  # noqa: BLE001
            if exc_origin(e) == "harness":
                raise
            acc = Acc()
            acc.lib_exception("C03/%s/shard-aborted" % fn.__name__, e, {"job": repr(job)[:400]})
            return acc, []
    return w


# documented parameter names of the aliases / factories that are also exercised in KEYWORD form (a name that the tree
# under test does not accept by keyword is dropped at start-up and listed under 'degraded', never a failure)
KW_NAMES = {
    "Duration.add": ("left", "right"), "Duration.subtract": ("left", "right"), "Duration.multiply": ("left", "right"),
    "Duration.divide": ("left", "right"), "Duration.negate": ("duration",), "Duration.max": ("x", "y"), "Duration.min": ("x", "y"),
    "Duration.plus": ("other",), "Duration.minus": ("other",), "Duration.compare_to": ("other",), "Duration.equals": ("other",),
    "Instant.add": ("left", "right"), "Instant.max": ("x", "y"), "Instant.min": ("x", "y"), "Instant.plus": ("other",),
    "Instant.plus_ticks": ("ticks",), "Instant.plus_nanoseconds": ("nanoseconds",), "Instant.from_unix_time_seconds": ("seconds",),
    "Instant.from_unix_time_milliseconds": ("milliseconds",), "Instant.from_unix_time_ticks": ("ticks",),
    "Instant.from_utc": ("year", "month_of_year", "day_of_month", "hour_of_day", "minute_of_hour", "second_of_minute"),
    "Offset.add": ("left", "right"), "Offset.subtract": ("minuend", "subtrahend"), "Offset.negate": ("offset",), "Offset.max": ("x", "y"),
    "Offset.min": ("x", "y"), "Offset.plus": ("other",), "Offset.minus": ("other",), "Offset.from_seconds": ("seconds",),
    "Offset.from_milliseconds": ("milliseconds",), "Offset.from_ticks": ("ticks",), "Offset.from_nanoseconds": ("nanoseconds",),
    "Offset.from_hours": ("hours",), "Offset.from_hours_and_minutes": ("hours", "minutes"),
}
for _u in M.UNIT_NS:
    KW_NAMES["Duration.from_" + _u] = (_u,)
_CLASSES = {"Duration": Duration, "Instant": Instant, "Offset": Offset}


@functools.cache
def _kw_names(qual):
    cname, meth = qual.split(".")
    fn = getattr(_CLASSES[cname], meth, None)
    names = KW_NAMES[qual]
    return names if fn is not None and kw_ok(fn, names) else None


def kwf(acc, qual, *args, obj=None):
    """keyword spellings of a call (thunks); [] and a 'degraded' note when the documented names are not accepted"""
    names = _kw_names(qual)
    if names is None:
        acc.degrade("keyword form of %s%r not accepted by this tree: skipped" % (qual, KW_NAMES[qual]))
        return []
    cname, meth = qual.split(".")
    return kw_forms(getattr(obj if obj is not None else _CLASSES[cname], meth), names, args)


def guarded(acc, prefix, case, fn, *a, **kw):
    """run one item's checks; an exception escaping from library code on this (valid) item is a violation, not a crash"""
    try:
        return fn(acc, *a, **kw)
    except Exception as e:  # noqa: BLE001
        if exc_origin(e) == "harness":
            raise
        acc.lib_exception(prefix, e, case)
        return None


def _py_factory(unit, n):
    return ("from pyoda_time import Duration\n\ndef test_replay():\n    n = %r\n    unit_ns = %d\n    lo, hi = %d, %d\n"
            "    try:\n        d = Duration.from_%s(n)\n    except (ValueError, OverflowError):\n        assert not (lo <= n * unit_ns <= hi)\n        return\n"
            "    assert lo <= n * unit_ns <= hi, 'out of range value returned'\n"
            "    assert 0 <= d._nanosecond_of_floor_day < 86400 * 10**9\n    assert d.to_nanoseconds() == int(n * unit_ns)\n"
            "    assert d == Duration.from_nanoseconds(int(n * unit_ns))\n" % (n, M.UNIT_NS[unit], M.DUR_MIN_NS, M.DUR_MAX_NS, unit))


def _py_binop(op, a, b):
    sym = {"add": "+", "sub": "-"}[op]
    return ("from pyoda_time import Duration\n\ndef test_replay():\n    a, b = %d, %d\n    exact = a %s b\n"
            "    try:\n        d = Duration.from_nanoseconds(a) %s Duration.from_nanoseconds(b)\n"
            "    except (ValueError, OverflowError):\n        assert not (%d <= exact <= %d)\n        return\n"
            "    assert 0 <= d._nanosecond_of_floor_day < 86400 * 10**9\n    assert d.to_nanoseconds() == exact\n" % (
                a, b, sym, sym, M.DUR_MIN_NS, M.DUR_MAX_NS))


# ---------------------------------------------------------------------------------------------------- Duration
def check_value(acc, ns, scalars=SCALARS, new=None, kwforms=False):
    """Everything observable about one Duration value (accessors, unary minus, scalar ops)."""
    case = {"kind": "dur-value", "ns": ns}
    acc.count(states=1)
    d = expect(acc, lambda: mk(ns), True, ns, "C03/duration/from_nanoseconds", "%s,mag=%s" % (vclass(ns), mag(ns)), case)
    if d is None:
        return
    cls = vclass(ns)
    comp = M.dur_components(ns)
    for name, e in comp.items():
        acc.count(evaluations=1)
        try:
            g = getattr(d, name)
        except Exception as ex:  # noqa: BLE001
            acc.lib_exception("C03/duration/accessor/" + name, ex, case)
            continue
        if g != e or isinstance(g, bool) or not isinstance(g, int):
            acc.violation("C03/duration/accessor/%s/%s" % (name, cls), "%s of %d ns is %r, exact %r" % (name, ns, g, e), case)
    for name, u in M.TOTALS.items():
        acc.count(evaluations=1)
        try:
            g = getattr(d, name)
        except Exception as ex:  # noqa: BLE001
            acc.lib_exception("C03/duration/accessor/" + name, ex, case)
            continue
        if not M.total_ok(ns, u, g):
            acc.violation("C03/duration/accessor/%s/%s" % (name, cls), "%s of %d ns is %r, exact %s" % (name, ns, g, Fraction(ns, u)), case)
    if comp["days"] != 0 or comp["nanosecond_of_day"] < 0:
        acc.count(nontrivial=1)
    # unary minus
    neg = -ns
    c2 = {"kind": "dur-unary", "op": "neg", "a": ns}
    r = expect(acc, lambda: -d, M.in_dur(neg), neg, "C03/duration/neg", cls, c2)
    if r is not None and new is not None:
        new.add(neg)
    r = expect(acc, lambda: Duration.negate(d), M.in_dur(neg), neg, "C03/duration/negate", cls, c2)
    if kwforms:
        for f in kwf(acc, "Duration.negate", d):
            expect(acc, f, M.in_dur(neg), neg, "C03/duration/negate", cls + ",keyword", c2)
    # scalar multiplication / truncating division by ints
    for k in scalars:
        prod = ns * k
        c3 = {"kind": "dur-scalar", "op": "mul", "a": ns, "k": k}
        kc = "%s,k=%s%s" % (cls, "-" if k < 0 else "", mag(k))
        r = expect(acc, lambda: d * k, M.in_dur(prod), prod, "C03/duration/mul", kc, c3)
        if r is not None and new is not None:
            new.add(prod)
        expect(acc, lambda: k * d, M.in_dur(prod), prod, "C03/duration/rmul", kc, c3)
        expect(acc, lambda: Duration.multiply(d, k), M.in_dur(prod), prod, "C03/duration/mul", kc + ",alias", c3)
        if kwforms:
            for f in kwf(acc, "Duration.multiply", d, k) + kwf(acc, "Duration.multiply", k, d):
                expect(acc, f, M.in_dur(prod), prod, "C03/duration/mul", kc + ",keyword", c3)
        if k == 0:
            acc.count(transitions=1, evaluations=1)
            try:
                r = d / k
                acc.violation("C03/duration/div/no-raise/by-zero", "%d ns / 0 returned %r" % (ns, r), {"kind": "dur-scalar", "op": "div", "a": ns, "k": 0})
            except Exception as ex:  # noqa: BLE001
                if exc_origin(ex) == "harness":
                    raise
                acc.outcome("raise:div-by-zero")
            continue
        q = M.tdiv(ns, k)
        c4 = {"kind": "dur-scalar", "op": "div", "a": ns, "k": k}
        r = expect(acc, lambda: d / k, M.in_dur(q), q, "C03/duration/div", kc, c4)
        expect(acc, lambda: Duration.divide(d, k), M.in_dur(q), q, "C03/duration/div", kc + ",alias", c4)
        if kwforms:
            for f in kwf(acc, "Duration.divide", d, k):
                expect(acc, f, M.in_dur(q), q, "C03/duration/div", kc + ",keyword", c4)
        if r is not None and new is not None:
            new.add(q)
        if M.trem(ns, k) != 0:
            acc.count(nontrivial=1)
    # timedelta view (truncation toward zero to microseconds); timedelta holds at most +/-999999999 days
    us = M.tdiv(ns, 1000)
    fits = _TD_MIN_US <= us <= _TD_MAX_US
    acc.count(evaluations=1)
    try:
        td = d.to_timedelta()
    except Exception as ex:  # noqa: BLE001
        if exc_origin(ex) == "harness":
            raise
        if fits:
            acc.lib_exception("C03/duration/to_timedelta", ex, case)
        else:
            acc.outcome("raise:to_timedelta-out-of-range")
    else:
        if not fits or td != _dt.timedelta(microseconds=us):
            acc.violation("C03/duration/to_timedelta/value/%s" % cls, "to_timedelta of %d ns is %r, exact %d us" % (ns, td, us), case)


def check_factory(acc, unit, n):
    uns = M.UNIT_NS[unit]
    if isinstance(n, float):
        exact = M.trunc_fraction(Fraction(n) * uns)
        ok = M.DUR_MIN_NS <= Fraction(n) * uns <= M.DUR_MAX_NS
    else:
        exact = n * uns
        ok = M.in_dur(exact)
    case = {"kind": "dur-factory", "unit": unit, "n": n if isinstance(n, int) else {"float": n.hex()}}
    if ok:
        cls = "%s,mag=%s%s" % (sgn(n), mag(n), ",float" if isinstance(n, float) else "")
    else:
        cls = "above-max" if n > 0 else "below-min"
    d = expect(acc, lambda: getattr(Duration, "from_" + unit)(n), ok, exact, "C03/duration/from_" + unit, cls, case,
               py=_py_factory(unit, n))
    acc.count(states=1)
    if not ok or (isinstance(n, int) and n % (NSD // uns) != 0 and n < 0):
        acc.count(nontrivial=1)
    if d is None:
        return None
    for f in kwf(acc, "Duration.from_" + unit, n):
        expect(acc, f, ok, exact, "C03/duration/from_" + unit, cls + ",keyword", case)
    # the same model value must be the same Duration whichever way it was built
    ref = mk(exact)
    acc.count(evaluations=1)
    if not (d == ref and not (d != ref) and hash(d) == hash(ref) and d.compare_to(ref) == 0):
        acc.violation("C03/duration/from_%s/equality/%s" % (unit, cls), "from_%s(%r) is not equal to from_nanoseconds(%d)" % (unit, n, exact), case,
                      py=_py_factory(unit, n))
    return exact


# float arguments that are NOT exact in the float computation: tiny magnitudes, non-dyadic values, values whose product with the unit
# size exceeds 53 bits.  Float routes are inexact by nature; demanded: normal form, sign symmetry, the error bound of one float
# multiplication + truncation, and == / hash consistency with the integer-built Duration of the same nanoseconds
INEXACT_FLOATS = (5e-324, 1e-20, 2.0 ** -54, 2.0 ** -53, 1e-16, 1e-9, 0.1, 2.7, 3.6, 12.34, 1.0 / 3.0, 86399.999999999, 123456789.0, 9.87654321e8)


def check_factory_float(acc, unit, x):
    uns = M.UNIT_NS[unit]
    real = Fraction(x) * uns                       # the mathematically exact number of nanoseconds
    slack = abs(real) / 2 ** 52 + 1                # one rounding of the float product (2^-53 relative) and the truncation
    case = {"kind": "dur-factory-float", "unit": unit, "x": x.hex()}
    cls = "%s,float,%s" % (sgn(x), "tiny" if abs(real) < 1 else ("non-dyadic" if abs(real) < 2 ** 52 else "beyond-53-bits"))
    key = "C03/duration/from_" + unit
    acc.count(states=1, transitions=1, evaluations=1, nontrivial=1)
    inside = M.DUR_MIN_NS + slack <= real <= M.DUR_MAX_NS - slack
    outside = real < M.DUR_MIN_NS - slack or real > M.DUR_MAX_NS + slack
    try:
        d = getattr(Duration, "from_" + unit)(x)
    except RANGE_EXC as e:
        if exc_origin(e) == "harness":
            raise
        if inside:
            acc.violation("%s/raises-in-range/%s" % (key, cls), "from_%s(%r) raised %s although %s ns is inside the range" % (unit, x, type(e).__name__, float(real)), case)
        else:
            acc.outcome("raise:" + type(e).__name__)
        return
    if outside:
        acc.violation("%s/no-raise/%s" % (key, cls), "from_%s(%r) is outside the range but %r ns was returned" % (unit, x, d.to_nanoseconds()), case)
        return
    acc.outcome("value")
    got = d.to_nanoseconds()
    if not check_dur(acc, d, got, key, cls, case):          # normal form and a public view consistent with its own total
        return
    if abs(got - real) > slack:
        acc.violation("%s/float-error/%s" % (key, cls), "from_%s(%r) is %d ns, exact %s ns: error beyond one float rounding + truncation" % (unit, x, got, float(real)), case)
    ref = mk(got)
    acc.count(evaluations=2)
    if not (d == ref and hash(d) == hash(ref) and d.compare_to(ref) == 0):
        acc.violation("%s/equality/%s" % (key, cls), "from_%s(%r) (%d ns) is not equal / hash-equal to from_nanoseconds(%d)" % (unit, x, got, got), case)
    try:
        m = getattr(Duration, "from_" + unit)(-x)
    except RANGE_EXC:
        return
    acc.count(transitions=1, evaluations=1)
    if m.to_nanoseconds() != -got or normal_form(acc, m) is not None or not (in_dur_neg(got) and m == -d or not in_dur_neg(got)):
        acc.violation("%s/sign-symmetry/%s" % (key, cls), "from_%s(%r) is %d ns but from_%s(%r) is %d ns (floor days %r, nano %r)" % (
            unit, x, got, unit, -x, m.to_nanoseconds(), getattr(m, "_floor_days", "?"), getattr(m, "_nanosecond_of_floor_day", "?")), case)


def in_dur_neg(ns):
    return M.in_dur(-ns)


CMP = (("lt", lambda a, b: a < b), ("le", lambda a, b: a <= b), ("gt", lambda a, b: a > b), ("ge", lambda a, b: a >= b),
       ("eq", lambda a, b: a == b), ("ne", lambda a, b: a != b))


def check_pair(acc, a, b, da, db, new=None, full=True):
    cls = "%s;%s;%s" % (sgn(a), sgn(b), nod_rel(a, b))
    for op, exact, fn in (("add", a + b, lambda: da + db), ("sub", a - b, lambda: da - db)):
        case = {"kind": "dur-binop", "op": op, "a": a, "b": b}
        ok = M.in_dur(exact)
        r = expect(acc, fn, ok, exact, "C03/duration/" + op, cls, case, py=_py_binop(op, a, b))
        if r is not None and new is not None:
            new.add(exact)
        fa, fb = a // NSD, b // NSD
        if not ok or exact // NSD != (fa + fb if op == "add" else fa - fb) or (exact < 0) != (a < 0):
            acc.count(nontrivial=1)
    if not full:
        return
    for name, exact, fn in (("add", a + b, lambda: Duration.add(da, db)), ("add", a + b, lambda: da.plus(db)),
                            ("sub", a - b, lambda: Duration.subtract(da, db)), ("sub", a - b, lambda: da.minus(db))):
        expect(acc, fn, M.in_dur(exact), exact, "C03/duration/" + name, cls + ",alias", {"kind": "dur-binop", "op": name, "a": a, "b": b})
    for name, exact, forms in (("add", a + b, kwf(acc, "Duration.add", da, db) + kwf(acc, "Duration.plus", db, obj=da)),
                               ("sub", a - b, kwf(acc, "Duration.subtract", da, db) + kwf(acc, "Duration.minus", db, obj=da))):
        for f in forms:
            expect(acc, f, M.in_dur(exact), exact, "C03/duration/" + name, cls + ",keyword", {"kind": "dur-binop", "op": name, "a": a, "b": b})
    case = {"kind": "dur-compare", "a": a, "b": b}
    for qual, e in (("Duration.max", max(a, b)), ("Duration.min", min(a, b))):
        for f in kwf(acc, qual, da, db):
            acc.count(evaluations=1)
            if f().to_nanoseconds() != e:
                acc.violation("C03/duration/minmax/%s,keyword" % cls, "%s(x=%d, y=%d) by keyword gives %d" % (qual, a, b, f().to_nanoseconds()), case)
    for f in kwf(acc, "Duration.compare_to", db, obj=da):
        acc.count(evaluations=1)
        if M.sign(f()) != M.sign(a - b):
            acc.violation("C03/duration/compare/compare_to/%s,keyword" % cls, "compare_to(other=) of %d and %d gives %r" % (a, b, f()), case)
    for name, f in CMP:
        acc.count(evaluations=1)
        g = f(da, db)
        e = f(a, b)
        if g is not e:
            acc.violation("C03/duration/compare/%s/%s" % (name, cls), "%d %s %d is %r, exact %r" % (a, name, b, g, e), case)
    acc.count(evaluations=4)
    c = da.compare_to(db)
    if M.sign(c) != M.sign(a - b):
        acc.violation("C03/duration/compare/compare_to/%s" % cls, "compare_to(%d, %d) == %r" % (a, b, c), case)
    mx, mn = Duration.max(da, db), Duration.min(da, db)
    if mx.to_nanoseconds() != max(a, b) or mn.to_nanoseconds() != min(a, b):
        acc.violation("C03/duration/minmax/%s" % cls, "max/min(%d, %d) == %d/%d" % (a, b, mx.to_nanoseconds(), mn.to_nanoseconds()), case)
    if (a == b) and hash(da) != hash(db):
        acc.violation("C03/duration/hash/%s" % cls, "equal durations hash differently", case)
    if b != 0:
        g = da / db
        if not M.ratio_ok(a, b, g):
            acc.violation("C03/duration/ratio/%s" % cls, "%d / %d (Duration/Duration) is %r, exact %s" % (a, b, g, Fraction(a, b)), case)


@worker
def w_dur_values(vals):
    acc = Acc()
    new = set()
    for i, ns in enumerate(vals):
        guarded(acc, "C03/duration/value", {"kind": "dur-value", "ns": ns}, check_value, ns, scalars=SCALARS + TOWER_SCALARS, new=new, kwforms=True)
        if i < 2:
            acc.sample({"duration_ns": ns, "components": M.dur_components(ns)})
    return acc, sorted(new)


@worker
def w_dur_factory(job):
    unit, counts = job
    acc = Acc()
    new = set()
    for n in counts:
        e = guarded(acc, "C03/duration/from_" + unit, {"kind": "dur-factory", "unit": unit, "n": n}, check_factory, unit, n)
        if e is not None:
            new.add(e)
    for f in FLOATS:
        for x in (f, f * 1024.0):
            guarded(acc, "C03/duration/from_" + unit, {"kind": "dur-factory", "unit": unit, "n": {"float": x.hex()}}, check_factory, unit, x)
    for f in INEXACT_FLOATS:
        for x in (f, -f):
            guarded(acc, "C03/duration/from_" + unit, {"kind": "dur-factory-float", "unit": unit, "x": x.hex()}, check_factory_float, unit, x)
    acc.sample({"factory": "from_" + unit, "counts": len(counts), "first": counts[:3]})
    return acc, sorted(new)


@worker
def w_dur_pairs(job):
    rows, cols, full = job
    acc = Acc()
    new = set()
    dcols = [(b, mk(b)) for b in cols]
    for a in rows:
        da = mk(a)
        for b, db in dcols:
            guarded(acc, "C03/duration/pair", {"kind": "dur-binop", "a": a, "b": b}, check_pair, a, b, da, db, new, full)
    return acc, sorted(new)


@worker
def w_closure(job):
    vals, core, scalars = job
    acc = Acc()
    new = set()
    dcore = [(b, mk(b)) for b in core]
    for a in vals:
        guarded(acc, "C03/duration/value", {"kind": "dur-value", "ns": a}, check_value, a, scalars=scalars, new=new)
        da = mk(a)
        for b, db in dcore:
            guarded(acc, "C03/duration/pair", {"kind": "dur-binop", "a": a, "b": b}, check_pair, a, b, da, db, new, full=False)
            guarded(acc, "C03/duration/pair", {"kind": "dur-binop", "a": b, "b": a}, check_pair, b, a, db, da, new, full=False)
    return acc, sorted(new)


# ---------------------------------------------------------------------------------------------------- Instant
EPOCH = Instant.from_unix_time_ticks(0)


def mk_inst(ns):
    return EPOCH + Duration.from_nanoseconds(ns)


def inst_ns(acc, i):
    d = i - EPOCH
    return d.to_nanoseconds()


def check_inst(acc, i, exp, prefix, cls, case):
    if not isinstance(i, Instant):
        acc.violation("%s/type/%s" % (prefix, cls), "returned %r" % (i,), case)
        return False
    try:
        fd, nd = i._days_since_epoch, i._nanosecond_of_day
        if not (0 <= nd < NSD) or (fd, nd) != divmod(exp, NSD):
            acc.violation("%s/normal-form/%s" % (prefix, cls), "days/nano-of-day (%d, %d), exact %r" % (fd, nd, divmod(exp, NSD)), case)
            return False
    except AttributeError:
        acc.degrade("Instant._days_since_epoch/_nanosecond_of_day not reachable")
    g = inst_ns(acc, i)
    if g != exp:
        acc.violation("%s/value/%s" % (prefix, cls), "instant is %d ns from the epoch, exact %d" % (g, exp), case)
        return False
    return True


def expect_inst(acc, fn, ok, exp, prefix, cls, case):
    r = expect(acc, fn, ok, exp, prefix, cls, case, kind="raw")
    if r is None:
        return None
    return r if check_inst(acc, r, exp, prefix, cls, case) else None


def iclass(ns):
    if ns < M.INST_MIN_NS + 2 * NSD:
        return "near-min"
    if ns > M.INST_MAX_NS - 2 * NSD:
        return "near-max"
    return "%s,%s" % (sgn(ns), "whole-sec" if ns % M.NS_S == 0 else "frac")


UNIX = (("seconds", M.NS_S), ("milliseconds", M.NS_MS), ("ticks", M.NS_TICK))


def check_instant_value(acc, ns, durs, offs, new=None):
    acc.count(states=1)
    case = {"kind": "inst-value", "ns": ns}
    cls = iclass(ns)
    i = expect_inst(acc, lambda: mk_inst(ns), True, ns, "C03/instant/construct", cls, case)
    if i is None:
        return
    for name, u in UNIX:
        acc.count(evaluations=1)
        g = getattr(i, "to_unix_time_" + name)()
        e = ns // u
        if g != e:
            acc.violation("C03/instant/to_unix_time_%s/%s" % (name, cls), "to_unix_time_%s of %d ns is %r, floor is %d" % (name, ns, g, e), case)
        if ns % u != 0 and ns < 0:
            acc.count(nontrivial=1)
        # and back: from the floor count
        c2 = {"kind": "inst-from-unix", "unit": name, "n": e}
        expect_inst(acc, lambda: getattr(Instant, "from_unix_time_" + name)(e), M.in_inst(e * u), e * u,
                    "C03/instant/from_unix_time_" + name, iclass(e * u), c2)
    for d in durs:
        dd = mk(d)
        for op, exact, fn in (("add", ns + d, lambda: i + dd), ("sub", ns - d, lambda: i - dd),
                              ("plus", ns + d, lambda: i.plus(dd)), ("minus", ns - d, lambda: i.minus(dd)),
                              ("add", ns + d, lambda: Instant.add(i, dd)), ("sub", ns - d, lambda: Instant.subtract(i, dd))):
            c3 = {"kind": "inst-dur", "op": op, "ns": ns, "d": d}
            ok = M.in_inst(exact)
            r = expect_inst(acc, fn, ok, exact, "C03/instant/" + op, "%s;d=%s,%s" % (cls, sgn(d), nod_rel(ns, d)), c3)
            if r is not None and new is not None:
                new.add(exact)
            if not ok or exact // NSD != ns // NSD:
                acc.count(nontrivial=1)
        for f in kwf(acc, "Instant.add", i, dd) + kwf(acc, "Instant.plus", dd, obj=i):
            expect_inst(acc, f, M.in_inst(ns + d), ns + d, "C03/instant/add", "%s;d=%s,%s,keyword" % (cls, sgn(d), nod_rel(ns, d)),
                        {"kind": "inst-dur", "op": "add", "ns": ns, "d": d})
    for n in (0, 1, -1, 10 ** 7 - 1, -(10 ** 7), M.INST_MAX_NS // 100, -(2 ** 63) - 1, 10 ** 22, 2 ** 53 + 1, 2 ** 1024, -(10 ** 400), (M.INST_MAX_NS - ns) // 100, (M.INST_MIN_NS - ns) // 100 - 1):
        exact = ns + n * 100
        expect_inst(acc, lambda: i.plus_ticks(n), M.in_inst(exact) and M.in_dur(n * 100), exact, "C03/instant/plus_ticks",
                    "%s;n=%s,mag=%s" % (cls, sgn(n), mag(n)), {"kind": "inst-plus", "unit": "ticks", "ns": ns, "n": n})
        for f in kwf(acc, "Instant.plus_ticks", n, obj=i):
            expect_inst(acc, f, M.in_inst(exact) and M.in_dur(n * 100), exact, "C03/instant/plus_ticks",
                        "%s;n=%s,mag=%s,keyword" % (cls, sgn(n), mag(n)), {"kind": "inst-plus", "unit": "ticks", "ns": ns, "n": n})
    for n in (0, 1, -1, NSD - 1, -NSD, 2 ** 63, -(2 ** 64) - 1, M.INST_MAX_NS - ns, M.INST_MAX_NS - ns + 1, M.INST_MIN_NS - ns, M.INST_MIN_NS - ns - 1, 10 ** 40, 2 ** 53 + 1, -(2 ** 1024), 10 ** 400):
        exact = ns + n
        expect_inst(acc, lambda: i.plus_nanoseconds(n), M.in_inst(exact) and M.in_dur(n), exact, "C03/instant/plus_nanoseconds",
                    "%s;n=%s,mag=%s" % (cls, sgn(n), mag(n)), {"kind": "inst-plus", "unit": "nanoseconds", "ns": ns, "n": n})
        for f in kwf(acc, "Instant.plus_nanoseconds", n, obj=i):
            expect_inst(acc, f, M.in_inst(exact) and M.in_dur(n), exact, "C03/instant/plus_nanoseconds",
                        "%s;n=%s,mag=%s,keyword" % (cls, sgn(n), mag(n)), {"kind": "inst-plus", "unit": "nanoseconds", "ns": ns, "n": n})
    # offsets applied safely at the ends of time (private helpers; degrade when absent)
    try:
        from pyoda_time._local_instant import _LocalInstant
        for o in offs:
            acc.count(transitions=2, evaluations=2)
            exact = ns + o * M.NS_S
            li = i._safe_plus(Offset.from_seconds(o))
            want = (divmod(exact, NSD) if M.in_inst(exact) else ((M.DUR_MIN_DAYS, 0) if exact < M.INST_MIN_NS else (M.DUR_MAX_DAYS, 0)))
            got = (li._days_since_epoch, li._nanosecond_of_day)
            if got != want:
                acc.violation("C03/instant/safe_plus/%s;o=%s" % (cls, sgn(o)), "_safe_plus(%d s) from %d ns gives %r, model %r" % (o, ns, got, want),
                              {"kind": "inst-safe", "ns": ns, "o": o})
            if not M.in_inst(exact):
                acc.count(nontrivial=1)
                acc.outcome("safe:sentinel")
            # the mirror image on a local instant
            loc = _LocalInstant._ctor(days=ns // NSD, nano_of_day=ns % NSD)
            back = loc._safe_minus(Offset.from_seconds(o))
            exact2 = ns - o * M.NS_S
            want2 = (divmod(exact2, NSD) if M.in_inst(exact2) else ((M.DUR_MIN_DAYS, 0) if exact2 < M.INST_MIN_NS else (M.DUR_MAX_DAYS, 0)))
            got2 = (back._days_since_epoch, back._nanosecond_of_day)
            if got2 != want2:
                acc.violation("C03/instant/safe_minus/%s;o=%s" % (cls, sgn(o)), "_safe_minus(%d s) from local %d ns gives %r, model %r" % (o, ns, got2, want2),
                              {"kind": "inst-safe", "ns": ns, "o": o})
    except (ImportError, AttributeError, TypeError) as e:
        if exc_origin(e) == "harness" or isinstance(e, (ImportError, AttributeError)):
            acc.degrade("Instant._safe_plus / _LocalInstant._safe_minus not reachable: %s" % type(e).__name__)
        else:
            raise


@worker
def w_instants(job):
    vals, durs, offs = job
    acc = Acc()
    new = set()
    for k, ns in enumerate(vals):
        guarded(acc, "C03/instant/value", {"kind": "inst-value", "ns": ns}, check_instant_value, ns, durs, offs, new)
        if k == 0:
            acc.sample({"instant_ns": ns, "unix_seconds_floor": ns // M.NS_S})
    return acc, sorted(new)


@worker
def w_inst_pairs(job):
    rows, cols = job
    acc = Acc()
    icols = [(b, mk_inst(b)) for b in cols]
    for a in rows:
        ia = mk_inst(a)
        for b, ib in icols:
            case = {"kind": "inst-pair", "a": a, "b": b}
            cls = "%s;%s" % (sgn(a - b), nod_rel(a, b))
            expect(acc, lambda: ia - ib, True, a - b, "C03/instant/diff", cls, case)
            for name, f in CMP:
                acc.count(evaluations=1)
                if f(ia, ib) is not f(a, b):
                    acc.violation("C03/instant/compare/%s/%s" % (name, cls), "%d %s %d is %r" % (a, name, b, f(ia, ib)), case)
            acc.count(evaluations=3)
            if M.sign(ia.compare_to(ib)) != M.sign(a - b) or inst_ns(acc, Instant.max(ia, ib)) != max(a, b) or inst_ns(acc, Instant.min(ia, ib)) != min(a, b):
                acc.violation("C03/instant/minmax-compare_to/%s" % cls, "compare_to/min/max of %d and %d disagree with the integers" % (a, b), case)
            for qual, e in (("Instant.max", max(a, b)), ("Instant.min", min(a, b))):
                for f in kwf(acc, qual, ia, ib):
                    acc.count(evaluations=1)
                    if inst_ns(acc, f()) != e:
                        acc.violation("C03/instant/minmax-compare_to/%s,keyword" % cls, "%s(x=, y=) of %d and %d by keyword disagrees with the integers" % (qual, a, b), case)
            if (a // NSD != b // NSD) and (a % NSD < b % NSD):
                acc.count(nontrivial=1)
    return acc, []


@worker
def w_inst_misc(_):
    acc = Acc()
    # unix factories at and beyond the documented range ends
    for name, u in UNIX:
        lo, hi = M.INST_MIN_NS // u, M.INST_MAX_NS // u
        for n in (lo - 1, lo, lo + 1, -1, 0, 1, hi - 1, hi, hi + 1, 10 ** 22, -(10 ** 22), 2 ** 63, -(2 ** 63) - 1, 2 ** 1024, -(10 ** 400)):
            exact = n * u
            expect_inst(acc, lambda: getattr(Instant, "from_unix_time_" + name)(n), lo <= n <= hi, exact, "C03/instant/from_unix_time_" + name,
                        "%s,mag=%s" % (sgn(n), mag(n)), {"kind": "inst-from-unix", "unit": name, "n": n})
            for f in kwf(acc, "Instant.from_unix_time_" + name, n):
                expect_inst(acc, f, lo <= n <= hi, exact, "C03/instant/from_unix_time_" + name, "%s,mag=%s,keyword" % (sgn(n), mag(n)),
                            {"kind": "inst-from-unix", "unit": name, "n": n})
            acc.count(states=1, nontrivial=0 if lo < n < hi else 1)
    # from_utc against the proleptic Gregorian day count
    for (y, mo, d) in ((-9998, 1, 1), (-9998, 12, 31), (-1, 12, 31), (0, 1, 1), (0, 2, 29), (0, 12, 31), (1, 1, 1), (4, 2, 29), (100, 3, 1),
                       (1582, 10, 10), (1969, 12, 31), (1970, 1, 1), (2000, 2, 29), (2100, 2, 28), (2100, 3, 1), (9999, 12, 31)):
        for (h, mi, s) in ((0, 0, 0), (23, 59, 59), (12, 0, 0), (0, 0, 1)):
            exact = M.days_from_civil(y, mo, d) * NSD + (h * 3600 + mi * 60 + s) * M.NS_S
            expect_inst(acc, lambda: Instant.from_utc(y, mo, d, h, mi, s), True, exact, "C03/instant/from_utc", "y=%d" % y,
                        {"kind": "inst-from-utc", "args": [y, mo, d, h, mi, s]})
            for f in kwf(acc, "Instant.from_utc", y, mo, d, h, mi, s):
                expect_inst(acc, f, True, exact, "C03/instant/from_utc", "y=%d,keyword" % y, {"kind": "inst-from-utc", "args": [y, mo, d, h, mi, s]})
            acc.count(states=1)
    # aware datetime -> Instant (exact: local microseconds minus the utc offset INCLUDING its sub-second part) and back when in range
    utc = _dt.timezone.utc
    offs = [(0, 0), (1, 0), (-1, 0), (M.OFF_MAX_S, 0), (M.OFF_MIN_S, 0), (86399, 999_999), (-86399, -999_999), (0, 1), (0, -1), (0, 999_999), (0, -999_999),
            (3600, 250_000), (-3600, -250_000), (1172, 130_000), (-1172, -130_000), (19800, 0)]
    for local in (_dt.datetime(1970, 1, 1), _dt.datetime(1, 1, 1), _dt.datetime(1, 1, 2, 0, 0, 0, 1), _dt.datetime(2000, 2, 29, 12, 34, 56, 789_012),
                  _dt.datetime(9999, 12, 31, 23, 59, 59, 999_999), _dt.datetime(1969, 12, 31, 23, 59, 59, 999_999)):
        loc_us = (local - _dt.datetime(1970, 1, 1)) // _dt.timedelta(microseconds=1)
        for so, uo in offs:
            a = local.replace(tzinfo=_dt.timezone(_dt.timedelta(seconds=so, microseconds=uo)))
            exact = (loc_us - (so * 10 ** 6 + uo)) * 1000
            case = {"kind": "inst-from-aware", "local_us": loc_us, "off_s": so, "off_us": uo}
            cls = "%s,off=%s%s" % (iclass(exact) if M.in_inst(exact) else "beyond-range", sgn(so * 10 ** 6 + uo), ",sub-second" if uo else "")
            i = expect_inst(acc, lambda: Instant.from_aware_datetime(a), M.in_inst(exact), exact, "C03/instant/from_aware_datetime", cls, case)
            acc.count(states=1, nontrivial=1 if uo or not M.in_inst(exact) else 0)
            if i is not None and exact >= M.BCL_EPOCH_DAYS * NSD:
                acc.count(transitions=1, evaluations=1)
                try:
                    back = i.to_datetime_utc()
                    if back != a or back.utcoffset() != _dt.timedelta(0) or back.replace(tzinfo=None) != _dt.datetime(1970, 1, 1) + _dt.timedelta(microseconds=exact // 1000):
                        acc.violation("C03/instant/to_datetime_utc/%s" % cls, "Instant.from_aware_datetime(%s).to_datetime_utc() is %s" % (a, back), case)
                except Exception as e:  # noqa: BLE001
                    acc.lib_exception("C03/instant/to_datetime_utc", e, case)
    # the same route with a tzinfo whose utc offset depends on the date and on fold (zoneinfo zones around their transitions, a
    # user-defined tzinfo): the datetime denotes local - dt.utcoffset() as the stdlib computes it for THAT datetime
    zc, missing = TZ.zone_cases(("America/New_York", "Australia/Lord_Howe"), (2024,))
    for z in missing:
        acc.degrade("zoneinfo zone %s not available on this machine: its cases are skipped" % z)
    for label, a in zc + TZ.custom_cases():
        exact = TZ.exact_instant_us(a) * 1000
        other = a.replace(fold=1 - a.fold).utcoffset()
        cls = "%s;fold=%d%s" % (label.replace("/", "."), a.fold, ",fold-matters" if other != a.utcoffset() else "")
        case = {"kind": "inst-from-aware-tz", "zone": label, "local": a.replace(tzinfo=None).isoformat(), "fold": a.fold}
        expect_inst(acc, lambda: Instant.from_aware_datetime(a), M.in_inst(exact), exact, "C03/instant/from_aware_datetime", cls, case)
        acc.count(states=1, nontrivial=1 if other != a.utcoffset() else 0)
    acc.count(evaluations=2)
    if inst_ns(acc, Instant.min_value) != M.INST_MIN_NS or inst_ns(acc, Instant.max_value) != M.INST_MAX_NS:
        acc.violation("C03/instant/range-ends", "Instant.min_value/max_value differ from -9998-01-01T00:00 / 9999-12-31T23:59:59.999999999", None)
    if Duration.min_value.to_nanoseconds() != M.DUR_MIN_NS or Duration.max_value.to_nanoseconds() != M.DUR_MAX_NS:
        acc.violation("C03/duration/range-ends", "Duration.min_value/max_value differ from -2^30 days / 2^30 days - 1 ns", None)
    return acc, []


# ---------------------------------------------------------------------------------------------------- Offset
OFF_UNITS = (("seconds", 1), ("milliseconds", 1000), ("ticks", 10 ** 7), ("nanoseconds", 10 ** 9))


def check_off(acc, o, exp, prefix, cls, case):
    if not isinstance(o, Offset) or o.seconds != exp:
        acc.violation("%s/value/%s" % (prefix, cls), "result %r (%r s), exact %d s" % (o, getattr(o, "seconds", None), exp), case)
        return False
    return True


def expect_off(acc, fn, ok, exp, prefix, cls, case):
    r = expect(acc, fn, ok, exp, prefix, cls, case, kind="raw")
    if r is None:
        return None
    return r if check_off(acc, r, exp, prefix, cls, case) else None


@worker
def w_off_sweep(job):
    """all offsets lo..hi: accessors, negation, from_<unit> at s*U + {-1,0,1} (truncation toward zero), + / - core"""
    lo, hi, core, stride_units = job
    acc = Acc()
    ocore = [(c, Offset.from_seconds(c)) for c in core]
    for s in range(lo, hi):
        acc.count(states=1)
        case = {"kind": "off-value", "s": s}
        cls = sgn(s)
        o = expect_off(acc, lambda: Offset.from_seconds(s), True, s, "C03/offset/from_seconds", cls, case)
        if o is None:
            continue
        acc.count(evaluations=5)
        if (o.milliseconds, o.ticks, o.nanoseconds) != (s * 1000, s * 10 ** 7, s * 10 ** 9):
            acc.violation("C03/offset/accessor/%s" % cls, "milliseconds/ticks/nanoseconds of %d s are %r" % (s, (o.milliseconds, o.ticks, o.nanoseconds)), case)
        if (-o).seconds != -s or (+o).seconds != s or Offset.negate(o).seconds != -s:
            acc.violation("C03/offset/neg/%s" % cls, "negation of %d s gives %r" % (s, (-o).seconds), case)
        if o.to_timedelta() != _dt.timedelta(seconds=s):
            acc.violation("C03/offset/to_timedelta/%s" % cls, "to_timedelta of %d s gives %r" % (s, o.to_timedelta()), case)
        if s % stride_units == 0 or s in (lo, hi - 1):
            for name, u in OFF_UNITS[1:]:
                for d in (-1, 0, 1):
                    n = s * u + d
                    e = M.tdiv(n, u)
                    ok = M.OFF_MIN_S * u <= n <= M.OFF_MAX_S * u
                    expect_off(acc, lambda: getattr(Offset, "from_" + name)(n), ok, e, "C03/offset/from_" + name, "%s,d=%d" % (sgn(n), d),
                               {"kind": "off-factory", "unit": name, "n": n})
                    if d != 0:
                        acc.count(nontrivial=1)
            # the timedelta factory: fractional seconds are truncated toward zero, the range is judged on the exact value
            for d in (-999999, -1, 0, 1, 999999):
                n = s * 10 ** 6 + d
                ok = M.OFF_MIN_S * 10 ** 6 <= n <= M.OFF_MAX_S * 10 ** 6
                expect_off(acc, lambda: Offset.from_timedelta(_dt.timedelta(microseconds=n)), ok, M.tdiv(n, 10 ** 6), "C03/offset/from_timedelta",
                           "%s,d=%d" % (sgn(n), d), {"kind": "off-factory", "unit": "timedelta-us", "n": n})
        for c, oc in ocore:
            for op, e, fn in (("add", s + c, lambda: o + oc), ("sub", s - c, lambda: o - oc), ("rsub", c - s, lambda: oc - o)):
                ok = M.in_off(e)
                expect_off(acc, fn, ok, e, "C03/offset/" + op, "%s;%s" % (sgn(s), sgn(c)), {"kind": "off-binop", "op": op, "a": s, "b": c})
                if not ok:
                    acc.count(nontrivial=1)
    return acc, []


@worker
def w_off_misc(job):
    alpha = job
    acc = Acc()
    for a in alpha:
        oa = Offset.from_seconds(a)
        for b in alpha:
            ob = Offset.from_seconds(b)
            case = {"kind": "off-pair", "a": a, "b": b}
            cls = "%s;%s" % (sgn(a), sgn(b))
            for op, e, fn in (("add", a + b, lambda: oa + ob), ("sub", a - b, lambda: oa - ob), ("plus", a + b, lambda: oa.plus(ob)),
                              ("minus", a - b, lambda: oa.minus(ob)), ("add-static", a + b, lambda: Offset.add(oa, ob)),
                              ("subtract-static", a - b, lambda: Offset.subtract(oa, ob))):
                expect_off(acc, fn, M.in_off(e), e, "C03/offset/" + op, cls, dict(case, op=op))
            for op, e, forms in (("add-static", a + b, kwf(acc, "Offset.add", oa, ob)), ("subtract-static", a - b, kwf(acc, "Offset.subtract", oa, ob)),
                                 ("plus", a + b, kwf(acc, "Offset.plus", ob, obj=oa)), ("minus", a - b, kwf(acc, "Offset.minus", ob, obj=oa))):
                for f in forms:
                    expect_off(acc, f, M.in_off(e), e, "C03/offset/" + op, cls + ",keyword", dict(case, op=op, form="keyword"))
            for qual, e in (("Offset.max", max(a, b)), ("Offset.min", min(a, b))):
                for f in kwf(acc, qual, oa, ob):
                    expect_off(acc, f, True, e, "C03/offset/minmax", cls + ",keyword", dict(case, op=qual, form="keyword"))
            for name, f in CMP:
                acc.count(evaluations=1)
                if f(oa, ob) is not f(a, b):
                    acc.violation("C03/offset/compare/%s/%s" % (name, cls), "%d %s %d is %r" % (a, name, b, f(oa, ob)), case)
            acc.count(evaluations=4)
            if M.sign(oa.compare_to(ob)) != M.sign(a - b) or Offset.max(oa, ob).seconds != max(a, b) or Offset.min(oa, ob).seconds != min(a, b) \
                    or ((a == b) and hash(oa) != hash(ob)):
                acc.violation("C03/offset/minmax-compare_to/%s" % cls, "compare_to/min/max/hash of %d and %d disagree with the integers" % (a, b), case)
    # factories at and beyond the range ends
    for name, u in OFF_UNITS:
        lo, hi = M.OFF_MIN_S * u, M.OFF_MAX_S * u
        for n in (lo - 1, lo, lo + 1, lo + u - 1, lo + u, -u - 1, -u, -u + 1, -1, 0, 1, u - 1, u, u + 1, hi - u, hi - u + 1, hi - 1, hi, hi + 1,
                  2 ** 63, -(2 ** 63) - 1, 10 ** 30, 2 ** 31, -(2 ** 32), 2 ** 53, 2 ** 1024, -(10 ** 400)):
            expect_off(acc, lambda: getattr(Offset, "from_" + name)(n), lo <= n <= hi, M.tdiv(n, u), "C03/offset/from_" + name,
                       "%s,mag=%s" % (sgn(n), mag(n)), {"kind": "off-factory", "unit": name, "n": n})
            for f in kwf(acc, "Offset.from_" + name, n):
                expect_off(acc, f, lo <= n <= hi, M.tdiv(n, u), "C03/offset/from_" + name, "%s,mag=%s,keyword" % (sgn(n), mag(n)),
                           {"kind": "off-factory", "unit": name, "n": n})
            acc.count(states=1, nontrivial=0 if lo < n < hi else 1)
    for a in alpha:
        for f in kwf(acc, "Offset.negate", Offset.from_seconds(a)):
            expect_off(acc, f, True, -a, "C03/offset/neg", sgn(a) + ",keyword", {"kind": "off-value", "s": a})
    for h in range(-20, 21):
        expect_off(acc, lambda: Offset.from_hours(h), -18 <= h <= 18, h * 3600, "C03/offset/from_hours", sgn(h), {"kind": "off-hours", "h": h})
        for m in (-61, -60, -59, -1, 0, 1, 30, 59, 60, 61):
            e = h * 3600 + m * 60
            expect_off(acc, lambda: Offset.from_hours_and_minutes(h, m), M.in_off(e), e, "C03/offset/from_hours_and_minutes", "%s;%s" % (sgn(h), sgn(m)),
                       {"kind": "off-hm", "h": h, "m": m})
            for f in kwf(acc, "Offset.from_hours_and_minutes", h, m):
                expect_off(acc, f, M.in_off(e), e, "C03/offset/from_hours_and_minutes", "%s;%s,keyword" % (sgn(h), sgn(m)), {"kind": "off-hm", "h": h, "m": m})
    acc.count(evaluations=1)
    if (Offset.min_value.seconds, Offset.max_value.seconds, Offset.zero.seconds) != (M.OFF_MIN_S, M.OFF_MAX_S, 0):
        acc.violation("C03/offset/range-ends", "Offset.min_value/max_value/zero differ from -18h/+18h/0", None)
    acc.sample({"offset_pairs": len(alpha) ** 2, "first": alpha[:4]})
    return acc, []


# ---------------------------------------------------------------------------------------------------- driver
def _rot(seq, seed):
    seq = list(seq)
    if not seq:
        return seq
    k = seed % len(seq)
    return seq[k:] + seq[:k]


def _split(seq, n):
    seq = list(seq)
    size = max(1, (len(seq) + n - 1) // n)
    return [seq[i:i + size] for i in range(0, len(seq), size)]


def _want(ctx, part):
    only = getattr(ctx, "only", None)
    return not only or part in only


def run(ctx):
    thorough = ctx.tier == "thorough"
    V = dur_alphabet()
    core = dur_core()
    seen = set(V)
    frontier = set()
    complete = True

    def collect(part, results):
        for acc, new in results:
            ctx.merge_part(part, acc)
            for x in new:
                if x not in seen:
                    seen.add(x)
                    frontier.add(x)

    if _want(ctx, "duration-values"):
        collect("duration-values", pmap(w_dur_values, _rot(_split(V, 48), ctx.seed)))
    if _want(ctx, "duration-factory"):
        jobs = [(u, unit_counts(u)) for u in M.UNIT_NS]
        collect("duration-factory", pmap(w_dur_factory, _rot(jobs, ctx.seed)))
    if _want(ctx, "duration-pairs"):
        jobs = [(rows, V, True) for rows in _split(V, 64)]
        collect("duration-pairs", pmap(w_dur_pairs, _rot(jobs, ctx.seed)))
    if _want(ctx, "duration-closure"):
        depth = 4 if thorough else 3
        cap = 400_000 if thorough else 30_000
        for level in range(2, depth + 1):
            vals = sorted(frontier, key=lambda x: (abs(x), x))
            frontier.clear()
            if len(vals) > cap:
                # keep a deterministic, evenly spread subset (by rank in |value| order); report the cut
                step = len(vals) / cap
                off = (ctx.seed % 97) / 97.0          # the seed only shifts which representatives of the value order are taken
                vals = [vals[min(len(vals) - 1, int((i + off) * step))] for i in range(cap)]
                ctx.cap("duration-closure level %d: %d new values, %d explored (even spread over the value order)" % (level, len(seen) - len(V), cap))
                complete = False
            cols = core if (level == 2 or not thorough) else core
            scal = (SCALARS + CLOSURE_TOWER) if level == 2 else (-1, 2, -3, 0, 2 ** 1024)
            jobs = [(chunk, cols, scal) for chunk in _split(vals, 64 if not thorough else 256)]
            ctx.note("closure_level_%d_values" % level, len(vals))
            collect("duration-closure", pmap(w_closure, _rot(jobs, ctx.seed)))
        if frontier:
            ctx.note("closure_unexplored_frontier", len(frontier))
    if _want(ctx, "instant"):
        I = inst_alphabet()
        durs = [d for d in V if abs(d) <= 2 * NSD + 1 or d in (M.DUR_MIN_NS, M.DUR_MAX_NS, 2 ** 63, -(2 ** 63), 2 ** 64 + 1)]
        durs += [M.INST_MAX_NS - M.INST_MIN_NS, -(M.INST_MAX_NS - M.INST_MIN_NS), M.INST_MAX_NS - M.INST_MIN_NS + 1]
        offs = (0, 1, -1, 3600, -3600, M.OFF_MAX_S, M.OFF_MIN_S)
        inew = set()
        for acc, new in pmap(w_instants, _rot([(c, durs, offs) for c in _split(I, 48)], ctx.seed)):
            ctx.merge_part("instant", acc)
            inew.update(new)
        inew -= set(I)
        lvl2 = sorted(inew)
        icap = 20000 if thorough else 4000
        if len(lvl2) > icap:
            step = len(lvl2) / icap
            off = (ctx.seed % 97) / 97.0
            lvl2 = [lvl2[min(len(lvl2) - 1, int((i + off) * step))] for i in range(icap)]
            ctx.cap("instant level 2: %d new instants, %d explored (even spread)" % (len(inew), icap))
            complete = False
        cdurs = [0, 1, -1, NSD - 1, -NSD, NSD + 1, M.INST_MAX_NS - M.INST_MIN_NS, -(M.INST_MAX_NS - M.INST_MIN_NS)]
        for acc, _ in pmap(w_instants, _rot([(c, cdurs, (M.OFF_MAX_S, M.OFF_MIN_S)) for c in _split(lvl2, 48)], ctx.seed)):
            ctx.merge_part("instant", acc)
        for acc, _ in pmap(w_inst_pairs, _rot([(rows, I) for rows in _split(I, 32)], ctx.seed)):
            ctx.merge_part("instant", acc)
        for acc, _ in pmap(w_inst_misc, [0]):
            ctx.merge_part("instant", acc)
    if _want(ctx, "offset"):
        ocore = (0, 1, -1, M.OFF_MAX_S, M.OFF_MIN_S, 3600) if not thorough else tuple(off_alphabet())
        stride = 1 if thorough else 7
        span = M.OFF_MAX_S - M.OFF_MIN_S + 1
        shards = [(M.OFF_MIN_S + a, M.OFF_MIN_S + min(span, a + 4096), ocore, stride) for a in range(0, span, 4096)]
        for acc, _ in pmap(w_off_sweep, _rot(shards, ctx.seed)):
            ctx.merge_part("offset", acc)
        for acc, _ in pmap(w_off_misc, [off_alphabet()]):
            ctx.merge_part("offset", acc)
        if not thorough:
            ctx.cap("offset: from_milliseconds/ticks/nanoseconds/timedelta boundary arguments at every 7th second (all seconds in the thorough tier)")
    ctx.note("duration_alphabet", len(V))
    ctx.note("distinct_duration_values_seen", len(seen))
    ctx.rule = ("non-trivial = an operation whose exact result crosses a day boundary (carry/borrow between the day and "
                "nanosecond parts), changes sign relative to the left operand, has a non-zero truncated remainder, or lies "
                "outside the documented range (must raise); plus every value with a non-zero day part or negative day fraction")
    ctx.assumptions = [
        "Duration range is [-2^30 days, 2^30 days) as coded in Duration._MIN_DAYS/_MAX_DAYS; Instant range -9998-01-01..9999-12-31; Offset +/-18 h",
        "float accessors (total_*, Duration/Duration) are compared with tolerance 2^-50 relative to max(|exact|, one day in that unit)",
        "float arguments of from_<unit> are restricted to dyadic values whose product with the unit size is exact in a double",
        "out-of-range results must raise ValueError or OverflowError (the types the property names); division by zero may raise anything",
        "private fields _floor_days/_nanosecond_of_floor_day/_days_since_epoch are read for the normal-form check when reachable (degrades otherwise)",
    ]
    # the declared finite space = alphabet x alphabet x ops (+ closure against the core) - complete unless a cap was hit
    ctx.exhaustive = bool(complete and not getattr(ctx, "only", None))


# ---------------------------------------------------------------------------------------------------- replay
def replay(rec):
    case = rec.get("case") or {}
    if "case" in case and isinstance(case["case"], dict):
        case = case["case"]
    acc = Acc()
    k = case.get("kind")
    if k == "dur-value":
        guarded(acc, "C03/duration/value", case, check_value, case["ns"], scalars=SCALARS + TOWER_SCALARS, kwforms=True)
    elif k in ("dur-unary", "dur-scalar"):
        guarded(acc, "C03/duration/value", case, check_value, case["a"], scalars=(case["k"],) if "k" in case else SCALARS, kwforms=True)
    elif k == "dur-factory":
        n = case["n"]
        if isinstance(n, dict):
            n = float.fromhex(n["float"])
        guarded(acc, "C03/duration/from_" + case["unit"], case, check_factory, case["unit"], n)
    elif k == "dur-factory-float":
        guarded(acc, "C03/duration/from_" + case["unit"], case, check_factory_float, case["unit"], float.fromhex(case["x"]))
    elif k in ("dur-binop", "dur-compare"):
        guarded(acc, "C03/duration/pair", case, check_pair, case["a"], case["b"], mk(case["a"]), mk(case["b"]))
    elif k in ("inst-value", "inst-dur", "inst-plus", "inst-safe"):
        durs = [case["d"]] if "d" in case else [0, 1, -1]
        offs = [case["o"]] if "o" in case else [0, M.OFF_MAX_S, M.OFF_MIN_S]
        guarded(acc, "C03/instant/value", case, check_instant_value, case["ns"], durs, offs)
    elif k in ("inst-from-unix", "inst-from-utc", "inst-from-aware", "inst-from-aware-tz"):
        acc.merge(w_inst_misc(0)[0])
    elif k and k.startswith("off-"):
        acc.merge(w_off_misc(off_alphabet())[0])
        if "s" in case:
            acc.merge(w_off_sweep((case["s"], case["s"] + 1, (0, 1, -1), 1))[0])
        elif k == "off-factory" and isinstance(case.get("n"), int):
            # the sweep builds its factory arguments around a whole second: re-run the seconds the recorded argument can belong to
            cands = set()
            for u in (1, 10 ** 3, 10 ** 6, 10 ** 7, 10 ** 9):
                for d in (-1, 0, 1):
                    c = M.tdiv(case["n"], u) + d
                    if M.OFF_MIN_S <= c <= M.OFF_MAX_S:
                        cands.add(c)
            for c in sorted(cands):
                acc.merge(w_off_sweep((c, c + 1, (0, 1, -1), 1))[0])
    else:
        return False
    return rec.get("key") in acc.violations or (bool(acc.violations) and rec.get("key") is None)
