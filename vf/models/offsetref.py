"""Reference model for C11: offset / zoned date-times as plain Python ints.

A value is the triple (instant_ns, offset_s, calendar_id) [+ zone for zoned values].  Everything observable is a
function of it:

    local_total = instant_ns + offset_s * 10**9          (nanoseconds since 1970-01-01T00:00 *local*)
    local_day, nanosecond_of_day = divmod(local_total, NSD)

Calendars only matter through their identity and through the range of day numbers they support; zones only through
"offset at instant" which is supplied by the caller (a plain function instant_ns -> seconds).  No pyoda_time import here.
"""
from __future__ import annotations

NSD = 86_400 * 10**9
NS_S = 10**9
OFFSET_MIN_S = -18 * 3600
OFFSET_MAX_S = 18 * 3600

RAISES = "RAISES"          # the operation has no representable result: the implementation must refuse


class Ranges:
    """Supported ranges, read from the implementation's public constants at start-up (configuration, not oracle)."""

    def __init__(self, instant_min_ns, instant_max_ns, cal_days):
        self.imin = instant_min_ns
        self.imax = instant_max_ns
        self.cal_days = dict(cal_days)      # calendar id -> (min_day, max_day), days since 1970-01-01

    def instant_ok(self, i):
        return self.imin <= i <= self.imax

    def day_ok(self, cal, day):
        lo, hi = self.cal_days[cal]
        return lo <= day <= hi


def local_of(instant_ns, offset_s):
    """(local_day, nanosecond_of_day) of an instant seen at an offset."""
    return divmod(instant_ns + offset_s * NS_S, NSD)


def instant_of(local_day, nanosecond_of_day, offset_s):
    return local_day * NSD + nanosecond_of_day - offset_s * NS_S


def time_fields(nod):
    """Clock fields of a nanosecond-of-day, all by integer division."""
    sec = nod // NS_S
    hour = sec // 3600
    return {
        "hour": hour,
        "minute": (sec // 60) % 60,
        "second": sec % 60,
        "millisecond": (nod // 10**6) % 1000,
        "tick_of_second": (nod // 100) % 10**7,
        "tick_of_day": nod // 100,
        "nanosecond_of_second": nod % NS_S,
        "nanosecond_of_day": nod,
        "clock_hour_of_half_day": (hour % 12) or 12,
    }


class M:
    """Model state of an OffsetDateTime: instant, offset, calendar.  `i` may lie outside the Instant range for values
    built from local parts (the local side is then still fully defined)."""

    __slots__ = ("i", "o", "cal")

    def __init__(self, i, o, cal):
        self.i = i
        self.o = o
        self.cal = cal

    def key(self):
        d, n = local_of(self.i, self.o)
        return (d, n, self.o, self.cal)

    def local(self):
        return local_of(self.i, self.o)

    def __repr__(self):
        return "M(i=%d, o=%d, cal=%r)" % (self.i, self.o, self.cal)


def _from_instant(r: Ranges, i, o, cal):
    """Value defined by an instant: needs the instant and the local day to be representable."""
    if not r.instant_ok(i):
        return RAISES
    d, _ = local_of(i, o)
    if not r.day_ok(cal, d):
        return RAISES
    return M(i, o, cal)


def _from_local(r: Ranges, day, nod, o, cal):
    """Value defined by local parts: only the local day has to be representable."""
    if not r.day_ok(cal, day):
        return RAISES
    return M(instant_of(day, nod, o), o, cal)


def m_create(r, i, o, cal):
    return _from_instant(r, i, o, cal)


def m_with_offset(r, m: M, o2):
    # same instant, same calendar, new offset (local time moves by up to 36 h: two day carries)
    d, n = local_of(m.i, o2)
    return _from_local(r, d, n, o2, m.cal)


def m_with_calendar(r, m: M, cal2):
    d, n = m.local()
    return _from_local(r, d, n, m.o, cal2)


def m_plus(r, m: M, dur_ns):
    # the instant moves by exactly dur_ns; offset and calendar stay
    if not r.instant_ok(m.i):
        return RAISES
    return _from_instant(r, m.i + dur_ns, m.o, m.cal)


def m_shift_date(r, m: M, days, cal2=None):
    d, n = m.local()
    return _from_local(r, d + days, n, m.o, cal2 or m.cal)


def m_set_time(r, m: M, nod):
    d, _ = m.local()
    return _from_local(r, d, nod % NSD, m.o, m.cal)


def m_same_local_new_offset(r, m: M, o2):
    # OffsetDate/OffsetTime/LocalDateTime.with_offset: local parts kept, offset replaced (the instant moves)
    d, n = m.local()
    return _from_local(r, d, n, o2, m.cal)


def m_elapsed(a: M, b: M):
    return a.i - b.i


class Z:
    """Model state of a ZonedDateTime: instant, zone (index + offset function), calendar."""

    __slots__ = ("i", "z", "cal")

    def __init__(self, i, z, cal):
        self.i = i
        self.z = z
        self.cal = cal


def z_create(r, i, z, cal, offset_at):
    if not r.instant_ok(i):
        return RAISES
    o = offset_at(z, i)
    d, _ = local_of(i, o)
    if not r.day_ok(cal, d):
        return RAISES
    return Z(i, z, cal)


def z_plus(r, zs: Z, dur_ns, offset_at):
    return z_create(r, zs.i + dur_ns, zs.z, zs.cal, offset_at)
