"""Reference model for C18: intervals as plain Python sets / half-open pairs of extended ints.

DateInterval  -> frozenset of consecutive day indices (position of the day on the day-number line)
Interval      -> (lo, hi) with lo = -INF when the start is missing, hi = +INF when the end is missing;
                 the denoted set is {t : lo <= t < hi} over integer nanoseconds.
Nothing here imports pyoda_time.
"""
from __future__ import annotations

INF = float("inf")


def dset(a: int, b: int) -> frozenset:
    """days a..b inclusive"""
    return frozenset(range(a, b + 1))


def contiguous(s) -> bool:
    return bool(s) and max(s) - min(s) + 1 == len(s)


def inter(sa, sb):
    """None when empty, else (min, max) of the intersection."""
    s = sa & sb
    return None if not s else (min(s), max(s))


def union(sa, sb):
    """None when the union is not one run of consecutive days (neither overlapping nor adjacent)."""
    s = sa | sb
    return (min(s), max(s)) if contiguous(s) else None


def half_open(start, end):
    """start/end: int nanoseconds or None.  Returns (lo, hi) or raises ValueError when end < start."""
    lo = -INF if start is None else start
    hi = INF if end is None else end
    if hi < lo:
        raise ValueError("end before start")
    return lo, hi


def member(iv, t: int) -> bool:
    return iv[0] <= t < iv[1]
