"""Independent decoder of the `.nzd` time-zone container (reference model for C04/C05/C06).

Written from the format description (Noda Time "nzd file format"), as pure functions over `bytes`:
nothing from pyoda_time is imported here.  All instants are plain ints: nanoseconds since 1970-01-01T00:00Z.
NEG / POS stand for "start of time" / "end of time".

Container    : int32 version (must be 0), then fields: 1 byte id, varint length, payload.
Field 0      : string pool   - count, then that many length-prefixed UTF-8 strings.
Field 1      : zone          - pooled id string, 1 byte kind (1 fixed, 2 precalculated), body.
Field 2      : tzdb version  - one length-prefixed string (no pool).
Field 3      : id map        - count, then (alias, canonical) pooled string pairs.
Field 4      : windows zones - version, tzdb version, windows version, count, map zones (windows id, territory, n, ids).
Field 6 / 7  : zone locations / zone-1970 locations.
Varint       : 7 bits per byte, least significant group first, high bit = continuation.
Signed count : zig-zag over the varint.
Milliseconds : (value + 86_400_000) encoded as
                 0xxxxxxx                      units of 30 minutes
                 100xxxxx + 1 byte             minutes
                 101xxxxx + 2 bytes            seconds
                 110xxxxx + 3 bytes            milliseconds
Transition   : varint v: 0 start of time, 1 end of time, 2 raw (8 bytes big-endian signed ticks since 1970),
               128 <= v < 2^21 hours since the previous transition, v >= 2^21 minutes since 1800-01-01T00:00Z.
Year rule    : flags byte 0MMDDDAP (mode 0 UTC / 1 wall / 2 standard, day-of-week 0 = none else 1 Mon..7 Sun,
               A advance to the weekday, P add a day = 24:00), month varint, signed day-of-month, milliseconds.
Precalculated: count n, first transition, n x (name, wall offset, savings, next transition), flag byte,
               if 1: standard offset, standard name, standard rule, daylight name, daylight rule, savings.
Fixed        : offset, optional name (present when bytes remain).
"""
from __future__ import annotations

NS = 10**9
MS = 10**6
DAY_NS = 86_400 * NS
NEG = "-inf"
POS = "+inf"
_DAYS_1800 = -62091            # days from 1970-01-01 back to 1800-01-01
EPOCH_1800_NS = _DAYS_1800 * DAY_NS


class FormatError(Exception):
    pass


class Cursor:
    """A position inside a bytes object (the only stateful thing here)."""
    __slots__ = ("b", "p", "pool")

    def __init__(self, b, pool=None, p=0):
        self.b = b
        self.p = p
        self.pool = pool

    def more(self):
        return self.p < len(self.b)

    def byte(self):
        if self.p >= len(self.b):
            raise FormatError("unexpected end of data")
        v = self.b[self.p]
        self.p += 1
        return v

    def take(self, n):
        if self.p + n > len(self.b):
            raise FormatError("unexpected end of data")
        d = self.b[self.p:self.p + n]
        self.p += n
        return d

    def varint(self):
        r = 0
        sh = 0
        while True:
            x = self.byte()
            r |= (x & 0x7F) << sh
            sh += 7
            if x < 0x80:
                return r

    def count(self):
        v = self.varint()
        if v > 0x7FFFFFFF:
            raise FormatError("count too large")
        return v

    def signed(self):
        v = self.varint()
        return (v >> 1) if v & 1 == 0 else -((v + 1) >> 1)

    def raw_string(self):
        n = self.count()
        return bytes(self.take(n)).decode("utf-8")

    def string(self):
        if self.pool is None:
            return self.raw_string()
        i = self.count()
        if i >= len(self.pool):
            raise FormatError("pool index %d out of range" % i)
        return self.pool[i]

    def millis(self):
        f = self.byte()
        if f < 0x80:
            m = f * 30 * 60_000
        else:
            kind = f >> 5
            d = f & 0x1F
            if kind == 0b100:
                m = ((d << 8) | self.byte()) * 60_000
            elif kind == 0b101:
                m = ((d << 16) | (self.byte() << 8) | self.byte()) * 1000
            elif kind == 0b110:
                m = (d << 24) | (self.byte() << 16) | (self.byte() << 8) | self.byte()
            else:
                raise FormatError("bad millisecond flag %02x" % f)
        return m - 86_400_000

    def offset_seconds(self):
        m = self.millis()
        if m % 1000:
            raise FormatError("offset with sub-second part")
        return m // 1000

    def transition(self, prev):
        v = self.count()
        if v < 128:
            if v == 0:
                return NEG
            if v == 1:
                return POS
            if v == 2:
                x = int.from_bytes(self.take(8), "big", signed=True)
                return x * 100
            raise FormatError("bad transition marker %d" % v)
        if v < (1 << 21):
            if prev is None or prev in (NEG, POS):
                raise FormatError("hours-since-previous without a previous transition")
            return prev + v * 3600 * NS
        return EPOCH_1800_NS + v * 60 * NS


def split_fields(data):
    """-> (version, [(field id, payload bytes)])"""
    if len(data) < 4:
        raise FormatError("no header")
    version = int.from_bytes(data[:4], "little", signed=True)
    c = Cursor(data, None, 4)
    fields = []
    while c.more():
        fid = c.byte()
        ln = c.count()
        fields.append((fid, bytes(c.take(ln))))
    return version, fields


def parse_year_rule(c):
    fl = c.byte()
    return {"mode": (fl >> 5) & 3, "dow": (fl >> 2) & 7, "advance": bool(fl & 2), "add_day": bool(fl & 1),
            "month": c.count(), "dom": c.signed(), "tod_ms": c.millis(), "flags": fl}


def parse_zone_body(c):
    kind = c.byte()
    if kind == 1:
        off = c.offset_seconds()
        name = c.string() if c.more() else None
        if c.more():
            raise FormatError("trailing bytes in fixed zone")
        return {"kind": "fixed", "offset": off, "name": name}
    if kind != 2:
        raise FormatError("unknown zone kind %d" % kind)
    n = c.count()
    periods = []
    start = c.transition(None)
    for _ in range(n):
        name = c.string()
        wall = c.offset_seconds()
        sav = c.offset_seconds()
        nxt = c.transition(start)
        periods.append((start, nxt, name, wall, sav))
        start = nxt
    tail = None
    if c.byte() == 1:
        std = c.offset_seconds()
        sname = c.string()
        srule = parse_year_rule(c)
        dname = c.string()
        drule = parse_year_rule(c)
        sav = c.offset_seconds()
        tail = {"std": std, "sname": sname, "srule": srule, "dname": dname, "drule": drule, "sav": sav}
    if c.more():
        raise FormatError("trailing bytes in zone")
    return {"kind": "precalc", "periods": periods, "tail": tail}


def parse_file(data):
    """Decode a whole .nzd file.  Returns a dict:
    header, pool, zones {id: zone}, zone_order, idmap {alias: canonical}, tzdb_version,
    windows {version, tzdb_version, windows_version, map_zones}, locations, locations_1970, unknown_fields."""
    version, fields = split_fields(data)
    if version != 0:
        raise FormatError("version %d" % version)
    out = {"header": version, "pool": None, "zones": {}, "zone_order": [], "idmap": None, "tzdb_version": None,
           "windows": None, "locations": None, "locations_1970": None, "unknown_fields": [], "field_ids": [f for f, _ in fields]}
    for fid, d in fields:
        if fid == 0:
            c = Cursor(d)
            out["pool"] = [c.raw_string() for _ in range(c.count())]
            if c.more():
                raise FormatError("trailing bytes in string pool")
        elif fid == 1:
            c = Cursor(d, out["pool"])
            if out["pool"] is None:
                raise FormatError("zone before string pool")
            zid = c.string()
            if zid in out["zones"]:
                raise FormatError("duplicate zone " + zid)
            out["zones"][zid] = parse_zone_body(c)
            out["zone_order"].append(zid)
        elif fid == 2:
            c = Cursor(d)
            out["tzdb_version"] = c.raw_string()
        elif fid == 3:
            c = Cursor(d, out["pool"])
            m = {}
            for _ in range(c.count()):
                k = c.string()
                m[k] = c.string()
            out["idmap"] = m
        elif fid == 4:
            c = Cursor(d, out["pool"])
            w = {"version": c.string(), "tzdb_version": c.string(), "windows_version": c.string(), "map_zones": []}
            for _ in range(c.count()):
                wid = c.string()
                terr = c.string()
                ids = [c.string() for _ in range(c.count())]
                w["map_zones"].append((wid, terr, tuple(ids)))
            out["windows"] = w
        elif fid == 6:
            c = Cursor(d, out["pool"])
            locs = []
            for _ in range(c.count()):
                lat = c.signed()
                lon = c.signed()
                locs.append((lat, lon, c.string(), c.string(), c.string(), c.string()))  # country name, code, zone id, comment
            out["locations"] = locs
        elif fid == 7:
            c = Cursor(d, out["pool"])
            locs = []
            for _ in range(c.count()):
                lat = c.signed()
                lon = c.signed()
                countries = tuple((c.string(), c.string()) for _ in range(c.count()))   # (name, code)
                locs.append((lat, lon, countries, c.string(), c.string()))               # zone id, comment
            out["locations_1970"] = locs
        else:
            out["unknown_fields"].append(fid)
    return out


def all_ids(f):
    """The id list a provider must expose: canonical ids plus aliases, ordinal order."""
    return sorted(set(f["zones"]) | set(f["idmap"] or {}))


def canonical_map(f):
    m = dict(f["idmap"] or {})
    for z in f["zones"]:
        m[z] = z
    return m


def alias_groups(f):
    g = {}
    for a, c in (f["idmap"] or {}).items():
        if a != c:
            g.setdefault(c, []).append(a)
    return {c: sorted(v) for c, v in g.items()}


def validate(f):
    """The file's own consistency rules, stated independently.  Returns a list of problems (empty = valid)."""
    bad = []
    cm = canonical_map(f)
    for k, v in cm.items():
        if v not in cm:
            bad.append("mapping %s -> %s: target missing" % (k, v))
        elif cm[v] != v:
            bad.append("mapping %s -> %s: target is not canonical" % (k, v))
    w = f["windows"]
    if w is None:
        bad.append("no windows mapping")
        return bad
    primary = {}
    for wid, terr, ids in w["map_zones"]:
        if terr == "001":
            primary[wid] = ids
    seen = set()
    by_win = {}
    for wid, terr, ids in w["map_zones"]:
        if wid not in primary:
            bad.append("windows id %s has no primary territory" % wid)
        for i in ids:
            if i not in cm:
                bad.append("windows mapping uses missing id %s" % i)
            if terr != "001":
                if i in seen:
                    bad.append("windows mapping has several entries for %s" % i)
                seen.add(i)
        by_win.setdefault(wid, []).append((terr, ids))
    for wid, lst in by_win.items():
        terrs = [t for t, _ in lst]
        if len(set(terrs)) != len(terrs):
            bad.append("duplicate territories for %s" % wid)
        prim = [ids for t, ids in lst if t == "001"]
        if not prim:
            continue
        if len(prim[0]) != 1:
            bad.append("primary of %s has %d ids" % (wid, len(prim[0])))
        elif not any(t != "001" and prim[0][0] in ids for t, ids in lst):
            bad.append("primary id of %s is in no other territory" % wid)
    for loc in f["locations"] or []:
        if loc[4] not in cm:
            bad.append("location uses missing zone %s" % loc[4])
    for loc in f["locations_1970"] or []:
        if loc[3] not in cm:
            bad.append("1970 location uses missing zone %s" % loc[3])
    return bad
