"""Reference model for C03 / C10 / C15: plain Python ints (and Fractions for the float accessors).

Nothing in here imports pyoda_time.  A Duration is an int of nanoseconds, an Instant an int of nanoseconds since
1970-01-01T00:00Z, an Offset an int of seconds, a LocalTime an int nanosecond-of-day, a local date-time a pair
(day number since 1970-01-01, nanosecond-of-day).
"""
from __future__ import annotations

from fractions import Fraction

NS_TICK = 100
NS_US = 1_000
NS_MS = 1_000_000
NS_S = 1_000_000_000
NS_MIN = 60 * NS_S
NS_H = 3600 * NS_S
NS_DAY = 86_400 * NS_S
NS_WEEK = 7 * NS_DAY

# unit name -> nanoseconds per unit (names are the suffixes of the from_<unit>/plus_<unit> methods)
UNIT_NS = {
    "nanoseconds": 1,
    "ticks": NS_TICK,
    "microseconds": NS_US,
    "milliseconds": NS_MS,
    "seconds": NS_S,
    "minutes": NS_MIN,
    "hours": NS_H,
    "days": NS_DAY,
}

# documented ranges -------------------------------------------------------------------------------------------------
DUR_MAX_DAYS = (1 << 30) - 1
DUR_MIN_DAYS = -(1 << 30)
DUR_MIN_NS = DUR_MIN_DAYS * NS_DAY
DUR_MAX_NS = (DUR_MAX_DAYS + 1) * NS_DAY - 1

INST_MIN_DAYS = -4371222          # -9998-01-01
INST_MAX_DAYS = 2932896           # 9999-12-31
INST_MIN_NS = INST_MIN_DAYS * NS_DAY
INST_MAX_NS = (INST_MAX_DAYS + 1) * NS_DAY - 1

OFF_MIN_S = -18 * 3600
OFF_MAX_S = 18 * 3600

BCL_EPOCH_DAYS = -719162          # 0001-01-01 relative to 1970-01-01


def tdiv(a: int, b: int) -> int:
    """exact integer division truncated toward zero"""
    q = abs(a) // abs(b)
    return q if (a < 0) == (b < 0) else -q


def trem(a: int, b: int) -> int:
    """remainder matching tdiv (sign of the dividend)"""
    return a - b * tdiv(a, b)


def trunc_fraction(fr: Fraction) -> int:
    n, d = fr.numerator, fr.denominator
    return tdiv(n, d)


def in_dur(ns: int) -> bool:
    return DUR_MIN_NS <= ns <= DUR_MAX_NS


def in_inst(ns: int) -> bool:
    return INST_MIN_NS <= ns <= INST_MAX_NS


def in_off(s: int) -> bool:
    return OFF_MIN_S <= s <= OFF_MAX_S


def dur_split(ns: int):
    """normal form: (floor days, nanosecond of floor day)"""
    return divmod(ns, NS_DAY)


def dur_components(ns: int) -> dict:
    """every integer accessor of Duration as documented (all truncated toward zero)"""
    nod = trem(ns, NS_DAY)
    return {
        "days": tdiv(ns, NS_DAY),
        "nanosecond_of_day": nod,
        "hours": tdiv(nod, NS_H),
        "minutes": trem(tdiv(nod, NS_MIN), 60),
        "seconds": trem(tdiv(nod, NS_S), 60),
        "milliseconds": trem(tdiv(nod, NS_MS), 1000),
        "microseconds": trem(tdiv(nod, NS_US), 1_000_000),
        "subsecond_ticks": trem(tdiv(nod, NS_TICK), 10_000_000),
        "subsecond_nanoseconds": trem(nod, NS_S),
        "bcl_compatible_ticks": tdiv(ns, NS_TICK),
    }


TOTALS = {
    "total_days": NS_DAY,
    "total_hours": NS_H,
    "total_minutes": NS_MIN,
    "total_seconds": NS_S,
    "total_milliseconds": NS_MS,
    "total_microseconds": NS_US,
    "total_ticks": NS_TICK,
    "total_nanoseconds": 1,
}

REL_TOL = Fraction(1, 2 ** 50)


def total_ok(ns: int, unit_ns: int, got) -> bool:
    """float accessor: |got - exact| <= 2^-50 * max(|exact|, one day expressed in the unit).
    (the implementation adds a day part and a day-fraction part, so the attainable absolute accuracy is that of a
    double of the magnitude of one day in the unit; demanding more near zero would be demanding more than a float
    sum can give)"""
    try:
        g = Fraction(got)
    except (TypeError, ValueError, OverflowError):
        return False
    exact = Fraction(ns, unit_ns)
    scale = max(abs(exact), Fraction(NS_DAY, unit_ns))
    return abs(g - exact) <= REL_TOL * scale


def ratio_ok(a: int, b: int, got) -> bool:
    try:
        g = Fraction(got)
    except (TypeError, ValueError, OverflowError):
        return False
    exact = Fraction(a, b)
    return abs(g - exact) <= REL_TOL * abs(exact)


def sign(x: int) -> int:
    return (x > 0) - (x < 0)


# proleptic Gregorian day number (days since 1970-01-01), years may be <= 0 (astronomical numbering) -----------------
def days_from_civil(y: int, m: int, d: int) -> int:
    y -= m <= 2
    era = y // 400
    yoe = y - era * 400
    doy = (153 * (m + (-3 if m > 2 else 9)) + 2) // 5 + d - 1
    doe = yoe * 365 + yoe // 4 - yoe // 100 + doy
    return era * 146097 + doe - 719468


def civil_from_days(z: int):
    z += 719468
    era = z // 146097
    doe = z - era * 146097
    yoe = (doe - doe // 1460 + doe // 36524 - doe // 146096) // 365
    y = yoe + era * 400
    doy = doe - (365 * yoe + yoe // 4 - yoe // 100)
    mp = (5 * doy + 2) // 153
    d = doy - (153 * mp + 2) // 5 + 1
    m = mp + (3 if mp < 10 else -9)
    return (y + (m <= 2), m, d)


# LocalTime ---------------------------------------------------------------------------------------------------------
def time_components(t: int) -> dict:
    return {
        "hour": t // NS_H,
        "minute": (t // NS_MIN) % 60,
        "second": (t // NS_S) % 60,
        "millisecond": (t // NS_MS) % 1000,
        "microsecond": (t // NS_US) % 1_000_000,
        "tick_of_second": (t // NS_TICK) % 10_000_000,
        "tick_of_day": t // NS_TICK,
        "nanosecond_of_second": t % NS_S,
        "nanosecond_of_day": t,
        "clock_hour_of_half_day": ((t // NS_H) % 12) or 12,
    }


def time_plus(t: int, amount: int, unit_ns: int) -> int:
    return (t + amount * unit_ns) % NS_DAY


def ldt_plus(day: int, t: int, total_ns: int):
    """(day number, ns of day) after adding total_ns nanoseconds on the local timeline"""
    return divmod(day * NS_DAY + t + total_ns, NS_DAY)


# numeric-tower boundaries: where C ints, doubles and Python's int->str conversion stop being "just an int" -----------
TOWER = (2 ** 31, 2 ** 32, 2 ** 53, 2 ** 63, 2 ** 64, 2 ** 1023, 2 ** 1024, 10 ** 400)
STR_LIMIT_POW10 = 4301          # 10**4301 has 4302 digits: beyond sys.get_int_max_str_digits() (4300)


def tower(neighbours=True):
    """+/- every tower boundary (and +/-1 around it when neighbours)"""
    out = []
    for b in TOWER:
        for d in ((-1, 0, 1) if neighbours else (0,)):
            out.append(b + d)
            out.append(-(b + d))
    return out


_POW10 = {400: 10 ** 400, STR_LIMIT_POW10: 10 ** STR_LIMIT_POW10}
_POW2 = {1023: 2 ** 1023, 1024: 2 ** 1024}
_E30 = 10 ** 30
_T100 = 2 ** 100


def show(n) -> str:
    """text of an int that never trips the int->str digit limit (the harness must not depend on that limit either)"""
    if not isinstance(n, int) or n.bit_length() <= 1024:
        return str(n)
    for e in (400, STR_LIMIT_POW10):
        q, r = divmod(abs(n), _POW10[e])
        if r.bit_length() <= 200 and q.bit_length() <= 200:
            return "%s(%d*10**%d+%d)" % ("-" if n < 0 else "", q, e, r)
        q, r = divmod(abs(n) + _E30, _POW10[e])          # just below a multiple
        if q.bit_length() <= 200 and r < _E30:
            return "%s(%d*10**%d-%d)" % ("-" if n < 0 else "", q, e, _E30 - r)
    for e in (1023, 1024):
        q, r = divmod(abs(n), _POW2[e])
        if r.bit_length() <= 200 and q.bit_length() <= 200:
            return "%s(%d*2**%d+%d)" % ("-" if n < 0 else "", q, e, r)
        q, r = divmod(abs(n) + _T100, _POW2[e])
        if q.bit_length() <= 200 and r < _T100:
            return "%s(%d*2**%d-%d)" % ("-" if n < 0 else "", q, e, _T100 - r)
    return "<int of %d bits>" % n.bit_length()


def enc(n):
    """JSON-safe form of an int of any size: the int itself, or {'expr': text understood by dec()}"""
    if not isinstance(n, int) or n.bit_length() <= 8000:
        return n
    return {"expr": show(n)}


def dec(x):
    import re
    if isinstance(x, dict) and "expr" in x:
        s = x["expr"]
        if not re.fullmatch(r"[0-9*+\-() ]+", s):
            raise ValueError("not an integer expression: %r" % s[:60])
        return int(eval(s, {"__builtins__": {}}, {}))      # digits and + - * ( ) only
    return x
