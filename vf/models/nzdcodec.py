"""Independent byte-level description of the Noda Time ".nzd" value encodings (reference model for C14 / C20).

Written from the documented format only (comments of DateTimeZoneWriter / TzdbStreamFieldId); it imports nothing
from pyoda_time.  Every encoder emits the *minimal* ("compact") class the format documents, every decoder accepts
exactly the documented classes.

Plain-python value vocabulary
    count / signed count      int
    milliseconds              int in (-86_400_000, 86_400_000)
    offset                    int seconds
    instant                   int unix ticks (100 ns), or NEG / POS for the start/end-of-time markers
    string                    str
    year offset               YO(mode, dow, adv, addday, month, dom, tod_ms)
    alternating map           (std_offset_s, std_name, YO, dst_name, YO, savings_s)
    precalculated zone        ([(start, name, wall_s, savings_s), ...], tail_start, map-or-None)
"""
from __future__ import annotations

from collections import namedtuple

NEG = "-inf"
POS = "+inf"
MS_PER_DAY = 86_400_000
TICKS_PER_MS = 10_000
TICKS_PER_SECOND = 10_000_000
TICKS_PER_MINUTE = 600_000_000
TICKS_PER_HOUR = 36_000_000_000
TICKS_PER_DAY = 864_000_000_000
INT_MAX = 2**31 - 1
INT_MIN = -(2**31)
HOURS_MIN = 1 << 7          # counts below are markers
MINUTES_MIN = 1 << 21       # counts from here on are minutes since 1800-01-01

YO = namedtuple("YO", "mode dow adv addday month dom tod_ms")


class Bad(Exception):
    """the byte string is not a valid encoding (what the format calls invalid data)"""


def days_from_civil(y, m, d):
    y -= m <= 2
    era = y // 400          # python floor division
    yoe = y - era * 400
    doy = (153 * (m + (-3 if m > 2 else 9)) + 2) // 5 + d - 1
    doe = yoe * 365 + yoe // 4 - yoe // 100 + doy
    return era * 146097 + doe - 719468


EPOCH_1800_TICKS = days_from_civil(1800, 1, 1) * TICKS_PER_DAY
MIN_INSTANT_TICKS = days_from_civil(-9998, 1, 1) * TICKS_PER_DAY
MAX_INSTANT_TICKS = (days_from_civil(9999, 12, 31) + 1) * TICKS_PER_DAY - 1


# ------------------------------------------------------------------------------------------ encoders

def enc_varint(n: int) -> bytes:
    if n < 0:
        raise ValueError(n)
    out = bytearray()
    while n >= 0x80:
        out.append((n & 0x7F) | 0x80)
        n >>= 7
    out.append(n)
    return bytes(out)


def enc_count(n: int) -> bytes:
    if not 0 <= n <= INT_MAX:
        raise ValueError(n)
    return enc_varint(n)


def enc_signed(n: int) -> bytes:
    return enc_varint(2 * n if n >= 0 else -2 * n - 1)


def millis_class(m: int) -> str:
    v = m + MS_PER_DAY
    if v % 1_800_000 == 0:
        return "half-hours"
    if v % 60_000 == 0:
        return "minutes"
    if v % 1000 == 0:
        return "seconds"
    return "millis"


MILLIS_LEN = {"half-hours": 1, "minutes": 2, "seconds": 3, "millis": 4}


def enc_millis(m: int) -> bytes:
    if not -MS_PER_DAY < m < MS_PER_DAY:
        raise ValueError(m)
    v = m + MS_PER_DAY
    if v % 1_800_000 == 0:
        return bytes([v // 1_800_000])
    if v % 60_000 == 0:
        q = v // 60_000
        return bytes([0x80 | (q >> 8), q & 0xFF])
    if v % 1000 == 0:
        q = v // 1000
        return bytes([0xA0 | (q >> 16), (q >> 8) & 0xFF, q & 0xFF])
    return bytes([0xC0 | (v >> 24), (v >> 16) & 0xFF, (v >> 8) & 0xFF, v & 0xFF])


def enc_offset(seconds: int) -> bytes:
    return enc_millis(seconds * 1000)


def transition_class(prev, value) -> str:
    if value == NEG:
        return "marker-min"
    if value == POS:
        return "marker-max"
    if prev is not None and prev != NEG and prev != POS:
        d = value - prev
        if d % TICKS_PER_HOUR == 0 and HOURS_MIN <= d // TICKS_PER_HOUR < MINUTES_MIN:
            return "hours"
    if value >= EPOCH_1800_TICKS:
        t = value - EPOCH_1800_TICKS
        if t % TICKS_PER_MINUTE == 0 and MINUTES_MIN < t // TICKS_PER_MINUTE <= INT_MAX:
            return "minutes"
    return "raw"


def enc_transition(prev, value) -> bytes:
    c = transition_class(prev, value)
    if c == "marker-min":
        return b"\x00"
    if c == "marker-max":
        return b"\x01"
    if c == "hours":
        return enc_varint((value - prev) // TICKS_PER_HOUR)
    if c == "minutes":
        return enc_varint((value - EPOCH_1800_TICKS) // TICKS_PER_MINUTE)
    return b"\x02" + (value & (2**64 - 1)).to_bytes(8, "big")


def enc_string(s: str, pool=None) -> bytes:
    if pool is None:
        d = s.encode("utf-8")
        return enc_count(len(d)) + d
    return enc_count(pool.index(s))


def enc_dict(d: dict, pool=None) -> bytes:
    out = enc_count(len(d))
    for k, v in d.items():
        out += enc_string(k, pool) + enc_string(v, pool)
    return out


def enc_yo(yo: YO) -> bytes:
    flags = (yo.mode << 5) | (yo.dow << 2) | (2 if yo.adv else 0) | (1 if yo.addday else 0)
    return bytes([flags]) + enc_count(yo.month) + enc_signed(yo.dom) + enc_millis(yo.tod_ms)


def enc_recurrence(name, savings_s, yo, from_year, to_year, pool=None) -> bytes:
    return enc_string(name, pool) + enc_offset(savings_s) + enc_yo(yo) + enc_count(max(from_year, 0)) + enc_count(to_year)


def enc_map(m, pool=None) -> bytes:
    std, sname, syo, dname, dyo, sav = m
    return enc_offset(std) + enc_string(sname, pool) + enc_yo(syo) + enc_string(dname, pool) + enc_yo(dyo) + enc_offset(sav)


def enc_precalc(periods, tail_start, tail, pool=None) -> bytes:
    out = bytearray(enc_count(len(periods)))
    prev = None
    for start, name, wall, sav in periods:
        out += enc_transition(prev, start)
        prev = start
        out += enc_string(name, pool) + enc_offset(wall) + enc_offset(sav)
    out += enc_transition(prev, tail_start)
    if tail is None:
        out += b"\x00"
    else:
        out += b"\x01" + enc_map(tail, pool)
    return bytes(out)


# ------------------------------------------------------------------------------------------ decoder

class Dec:
    def __init__(self, b: bytes, pool=None, pos=0):
        self.b = b
        self.p = pos
        self.pool = pool

    def byte(self):
        if self.p >= len(self.b):
            raise Bad("end of data")
        v = self.b[self.p]
        self.p += 1
        return v

    def more(self):
        return self.p < len(self.b)

    def varint(self):
        r = 0
        sh = 0
        while True:
            x = self.byte()
            r |= (x & 0x7F) << sh
            sh += 7
            if x < 0x80:
                return r

    def count(self):
        v = self.varint()
        if v > INT_MAX:
            raise Bad("count > int32")
        return v

    def signed(self):
        v = self.varint()
        return (v >> 1) if v & 1 == 0 else -((v + 1) >> 1)

    def string(self):
        if self.pool is None:
            n = self.count()
            if self.p + n > len(self.b):
                raise Bad("string runs past the end")
            d = self.b[self.p:self.p + n]
            self.p += n
            try:
                return d.decode("utf-8")
            except UnicodeDecodeError:
                raise Bad("not utf-8") from None
        i = self.count()
        if i >= len(self.pool):
            raise Bad("pool index")
        return self.pool[i]

    def dictionary(self):
        out = {}
        for _ in range(self.count()):
            k = self.string()
            out[k] = self.string()
        return out

    def millis(self):
        f = self.byte()
        if f & 0x80 == 0:
            m = f * 1_800_000
        else:
            fl = f & 0xE0
            d = f & 0x1F
            if fl == 0x80:
                m = ((d << 8) + self.byte()) * 60_000
            elif fl == 0xA0:
                m = ((d << 16) + (self.byte() << 8) + self.byte()) * 1000
            elif fl == 0xC0:
                m = (d << 24) + (self.byte() << 16) + (self.byte() << 8) + self.byte()
            else:
                raise Bad("millisecond flag")
        return m - MS_PER_DAY

    def offset(self):
        m = self.millis()
        if m % 1000 or not -64800 <= m // 1000 <= 64800:
            raise Bad("offset out of range / not whole seconds")
        return m // 1000

    def transition(self, prev):
        v = self.count()
        if v < HOURS_MIN:
            if v == 0:
                return NEG
            if v == 1:
                return POS
            if v == 2:
                x = 0
                for _ in range(8):
                    x = (x << 8) | self.byte()
                if x >= 1 << 63:
                    x -= 1 << 64
                return x
            raise Bad("marker")
        if v < MINUTES_MIN:
            if prev is None or prev in (NEG, POS):
                raise Bad("hours form without a usable previous instant")
            return prev + v * TICKS_PER_HOUR
        return EPOCH_1800_TICKS + v * TICKS_PER_MINUTE

    def yo(self):
        fl = self.byte()
        return YO(fl >> 5, (fl >> 2) & 7, bool(fl & 2), bool(fl & 1), self.count(), self.signed(), self.millis())

    def amap(self):
        std = self.offset()
        sname = self.string()
        syo = self.yo()
        dname = self.string()
        dyo = self.yo()
        sav = self.offset()
        return (std, sname, syo, dname, dyo, sav)

    def precalc(self):
        n = self.count()
        periods = []
        start = self.transition(None)
        for _ in range(n):
            name = self.string()
            wall = self.offset()
            sav = self.offset()
            nxt = self.transition(start)
            periods.append((start, name, wall, sav))
            start = nxt
        tail = self.amap() if self.byte() == 1 else None
        return periods, start, tail

    def zone_field(self):
        """payload of a TIME_ZONE field -> (id, kind, body)"""
        zid = self.string()
        t = self.byte()
        if t == 1:
            off = self.offset()
            name = self.string() if self.more() else None
            return zid, "fixed", (off, name)
        if t == 2:
            return zid, "precalc", self.precalc()
        raise Bad("zone type")


# ------------------------------------------------------------------------------------------ byte roles of a zone field

def zone_field_roles(payload: bytes, pool):
    """{payload offset: role} for every byte of a well-formed TIME_ZONE field payload.
    roles: id, type, fixed-offset, fixed-name, count, transition, name, offset, tail-flag, and for the tail map
    tail-offset, tail-name, tail-flags (mode/day-of-week/advance/add-day byte), tail-month, tail-dom, tail-tod."""
    d = Dec(payload, pool)
    roles = {}

    def mark(role, fn):
        a = d.p
        v = fn()
        for i in range(a, d.p):
            roles[i] = role
        return v

    def yo():
        mark("tail-flags", d.byte)
        mark("tail-month", d.count)
        mark("tail-dom", d.signed)
        mark("tail-tod", d.millis)

    mark("id", d.string)
    t = mark("type", d.byte)
    if t == 1:
        mark("fixed-offset", d.millis)
        if d.more():
            mark("fixed-name", d.string)
    elif t == 2:
        n = mark("count", d.count)
        start = mark("transition", lambda: d.transition(None))
        for _ in range(n):
            mark("name", d.string)
            mark("offset", d.millis)
            mark("offset", d.millis)
            start = mark("transition", lambda start=start: d.transition(start))
        if mark("tail-flag", d.byte) == 1:
            mark("tail-offset", d.millis)
            mark("tail-name", d.string)
            yo()
            mark("tail-name", d.string)
            yo()
            mark("tail-offset", d.millis)
    else:
        raise Bad("zone type")
    return roles


# ------------------------------------------------------------------------------------------ structure of the pool / id-map fields

def pool_entries(payload: bytes):
    """[(offset of the string's first byte, byte length)] for every string of a STRING_POOL field payload"""
    d = Dec(payload)
    out = []
    for _ in range(d.count()):
        n = d.count()
        if d.p + n > len(payload):
            raise Bad("string runs past the end")
        out.append((d.p, n))
        d.p += n
    return out


def idmap_entries(payload: bytes):
    """[(key offset, key varint length, key pool index, value offset, value varint length, value pool index)] of a TZDB_ID_MAP payload"""
    d = Dec(payload)
    out = []
    for _ in range(d.count()):
        a = d.p
        k = d.count()
        b = d.p
        v = d.count()
        out.append((a, b - a, k, b, d.p - b, v))
    return out


def zone_field_elements(payload: bytes, pool):
    """The decoded fields of a well-formed TIME_ZONE payload in stream order:
    [(start offset, end offset, role, decoded value, previous transition or None)].  Roles as in zone_field_roles;
    a transition's value is ticks / NEG / POS, `previous` is what the reader is given when it decodes that transition."""
    d = Dec(payload, None)          # strings are reported as pool indexes
    out = []

    def el(role, fn, prev=None):
        a = d.p
        v = fn()
        out.append((a, d.p, role, v, prev))
        return v

    def yo():
        el("tail-flags", d.byte)
        el("tail-month", d.count)
        el("tail-dom", d.signed)
        el("tail-tod", d.millis)

    el("id", d.count)
    t = el("type", d.byte)
    if t == 1:
        el("fixed-offset", d.millis)
        if d.more():
            el("fixed-name", d.count)
    elif t == 2:
        n = el("count", d.count)
        start = el("transition", lambda: d.transition(None))
        for _ in range(n):
            el("name", d.count)
            el("offset", d.millis)
            el("offset", d.millis)
            start = el("transition", lambda start=start: d.transition(start), start)
        if el("tail-flag", d.byte) == 1:
            el("tail-offset", d.millis)
            el("tail-name", d.count)
            yo()
            el("tail-name", d.count)
            yo()
            el("tail-offset", d.millis)
    else:
        raise Bad("zone type")
    if d.more():
        raise Bad("trailing bytes")
    return out


# ------------------------------------------------------------------------------------------ decoded elements of the non-zone fields

def field_elements(fid: int, payload: bytes):
    """Decoded elements of a non-zone field payload in stream order, as dicts
        {a, b, role, value[, items]}   a:b = byte range of the element's own encoding
    roles: count (a list's element count; items = [(start, end)] byte ranges of the list's elements), index (string-pool
    index), signed (zig-zag number), strlen (length prefix of an inline string; items = [(start, end)] of its bytes).
    fid: 0 string pool, 2 version, 3 id map, 4 Windows zones, 6 zone locations, 7 zone-1970 locations."""
    d = Dec(payload, None)
    out = []

    def num(role, signed=False):
        a = d.p
        v = d.signed() if signed else d.count()
        e = {"a": a, "b": d.p, "role": role, "value": v}
        out.append(e)
        return e

    def inline_string():
        e = num("strlen")
        n = e["value"]
        if d.p + n > len(payload):
            raise Bad("string runs past the end")
        e["items"] = [(d.p, d.p + n)]
        d.p += n

    def listed(item):
        c = num("count")
        c["items"] = []
        for _ in range(c["value"]):
            a = d.p
            item()
            c["items"].append((a, d.p))

    def idx():
        num("index")

    if fid == 0:
        listed(inline_string)
    elif fid == 2:
        inline_string()
    elif fid == 3:
        listed(lambda: (idx(), idx()))
    elif fid == 4:
        idx()
        idx()
        idx()
        listed(lambda: (idx(), idx(), listed(idx)))
    elif fid == 6:
        listed(lambda: (num("signed", True), num("signed", True), idx(), idx(), idx(), idx()))
    elif fid == 7:
        listed(lambda: (num("signed", True), num("signed", True), listed(lambda: (idx(), idx())), idx(), idx()))
    else:
        raise Bad("no element model for field id %d" % fid)
    if d.more():
        raise Bad("trailing bytes")
    return out
