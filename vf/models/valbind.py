"""Binding helpers shared by C10 and C15 (not a reference model: this is the only place where those checks touch private
day-number paths of pyoda_time; they are used only when they agree with the public API on a probe set)."""
from __future__ import annotations

import functools

from pyoda_time import CalendarSystem, LocalDate, Period

ISO_EPOCH = LocalDate(1970, 1, 1)

_PRIVATE = {"ok": None}


def private_ok():
    """the private day-number paths are used only if they agree with the public ones on a probe set"""
    if _PRIVATE["ok"] is None:
        ok = True
        try:
            for cal in (CalendarSystem.iso, CalendarSystem.julian, CalendarSystem.hebrew_civil):
                for n in (-1, 0, 1, 11016, 40000):
                    pub = ISO_EPOCH.plus_days(n).with_calendar(cal)
                    prv = LocalDate._ctor(days_since_epoch=n, calendar=cal)
                    if pub != prv or prv._days_since_epoch != n or Period.days_between(ISO_EPOCH, pub.with_calendar(CalendarSystem.iso)) != n:
                        ok = False
        except Exception:  # noqa: BLE001
            ok = False
        _PRIVATE["ok"] = ok
    return _PRIVATE["ok"]


def day_of(ld) -> int:
    if private_ok():
        return ld._days_since_epoch
    return Period.days_between(ISO_EPOCH, ld.with_calendar(CalendarSystem.iso))


def date_at(n: int, cal):
    if private_ok():
        return LocalDate._ctor(days_since_epoch=n, calendar=cal)
    return ISO_EPOCH.plus_days(n).with_calendar(cal)


@functools.cache
def cal_range(cal_id):
    """(lo, hi, consistent): public first day of min_year / last day of max_year as day numbers; consistent is False when
    the calendar's private day range disagrees with them (then the raise-at-the-end law is not demanded: C01's subject)"""
    cal = CalendarSystem.for_id(cal_id)
    # min/max over the months: month 1 is not the first month of the year in every numbering (Hebrew Scriptural starts at month 7)
    y0, y1 = cal.min_year, cal.max_year
    lo = min(day_of(LocalDate(y0, m, 1, cal)) for m in range(1, cal.get_months_in_year(y0) + 1))
    hi = max(day_of(LocalDate(y1, m, cal.get_days_in_month(y1, m), cal)) for m in range(1, cal.get_months_in_year(y1) + 1))
    consistent = True
    try:
        consistent = (cal._min_days, cal._max_days) == (lo, hi)
    except AttributeError:
        pass
    return lo, hi, consistent


# keyword call forms ------------------------------------------------------------------------------------------------
def kw_ok(fn, names) -> bool:
    """True when every documented parameter name can be passed by keyword to fn (checked once at start-up on whatever
    tree is under test: a name that is not accepted is dropped by the caller, never a failure)"""
    import inspect
    try:
        params = inspect.signature(fn).parameters
    except (TypeError, ValueError):
        return False
    for n in names:
        p = params.get(n)
        if p is None or p.kind is inspect.Parameter.POSITIONAL_ONLY:
            return False
    return True


def kw_forms(fn, names, args):
    """the keyword spellings of fn(*args): all keywords in documented order and in reverse order (same call, other
    order of the keywords); empty when the documented names are not accepted"""
    if len(names) != len(args) or not kw_ok(fn, names):
        return []
    pairs = list(zip(names, args))
    forms = [lambda: fn(**dict(pairs))]
    if len(pairs) > 1:
        forms.append(lambda: fn(**dict(reversed(pairs))))
    return forms


def make_kwf(kw_names, classes):
    """kwf(acc, 'Class.method', *args, obj=None) -> list of thunks calling the method with its documented parameter names as
    keywords; [] (and a 'degraded' note) when the tree under test does not accept those names by keyword"""
    import functools

    @functools.cache
    def names_of(qual):
        cname, meth = qual.split(".")
        fn = getattr(classes[cname], meth, None)
        names = kw_names[qual]
        return names if fn is not None and kw_ok(fn, names) else None

    def kwf(acc, qual, *args, obj=None):
        names = names_of(qual)
        if names is None:
            acc.degrade("keyword form of %s%r not accepted by this tree: skipped" % (qual, kw_names[qual]))
            return []
        cname, meth = qual.split(".")
        return kw_forms(getattr(obj if obj is not None else classes[cname], meth), names, args)

    return kwf
