"""Binding to the day-number line of pyoda_time calendars, shared by C09 / C16 / C18.

The day-number line (days since 1970-01-01 ISO) is the reference axis of the oracles: a LocalDate is mapped to a
plain int and all set / arithmetic reasoning is done on ints.  The bijection date <-> day number itself is the
subject of C01/C02 and is *assumed* here.

Private fast paths (`LocalDate._days_since_epoch`, `LocalDate._ctor(days_since_epoch=, calendar=)`,
`CalendarSystem._min_days/_max_days`) are used only after a start-up self-check against their public equivalents
(`Period.days_between`, `plus_days(...).with_calendar(...)`); when a private path is missing or disagrees the public
path is used instead and DEGRADED lists what happened (reported under coverage.degraded, never an alarm).
"""
from __future__ import annotations

from pyoda_time import CalendarSystem, LocalDate, Period

DEGRADED: list = []
_ISO_EPOCH = LocalDate(1970, 1, 1)
_EPOCH_IN = {}


def _epoch_in(cal):
    e = _EPOCH_IN.get(cal.id)
    if e is None:
        e = _EPOCH_IN[cal.id] = _ISO_EPOCH.with_calendar(cal)
    return e


def _daynum_public(d) -> int:
    return Period.days_between(_epoch_in(d.calendar), d)


def _daynum_private(d) -> int:
    return d._days_since_epoch


def _from_daynum_public(n: int, cal):
    return _ISO_EPOCH.plus_days(n).with_calendar(cal)


def _from_daynum_private(n: int, cal):
    return LocalDate._ctor(days_since_epoch=n, calendar=cal)


def calendars():
    """[(id, CalendarSystem)] in the order the library exposes them."""
    return [(i, CalendarSystem.for_id(i)) for i in CalendarSystem.ids]


def _selfcheck():
    global daynum, from_daynum
    daynum, from_daynum = _daynum_private, _from_daynum_private
    probes = (-1, 0, 1, 59, 60, 365, 366, 11016, 20000, -20000)
    try:
        for _, cal in calendars():
            lo, hi = _range_public(cal) if not hasattr(cal, "_min_days") else (cal._min_days, cal._max_days)
            for n in probes:
                if not (lo <= n <= hi):
                    continue
                a = _from_daynum_private(n, cal)
                b = _from_daynum_public(n, cal)
                if a != b or _daynum_private(a) != n or _daynum_public(a) != n:
                    raise AssertionError("private/public day-number paths disagree for %s day %d" % (cal.id, n))
    except Exception as e:  # noqa: BLE001 - any drift => public path
        daynum, from_daynum = _daynum_public, _from_daynum_public
        DEGRADED.append("dateline: private day-number fast path unavailable (%s: %s); public path used" % (type(e).__name__, str(e)[:80]))


_RANGE = {}


def _range_public(cal):
    """first/last day number of the calendar using public API only: the extreme month starts of min/max year."""
    lo = None
    for m in range(1, cal.get_months_in_year(cal.min_year) + 1):
        n = _daynum_public(LocalDate(cal.min_year, m, 1, cal))
        lo = n if lo is None or n < lo else lo
    hi = None
    y = cal.max_year
    for m in range(1, cal.get_months_in_year(y) + 1):
        n = _daynum_public(LocalDate(y, m, cal.get_days_in_month(y, m), cal))
        hi = n if hi is None or n > hi else hi
    return lo, hi


def cal_range(cal):
    """(first day number, last day number) of the calendar."""
    r = _RANGE.get(cal.id)
    if r is None:
        pub = _range_public(cal)
        try:
            prv = (cal._min_days, cal._max_days)
            if prv != pub:
                # the public walk is the definition used by the oracles; note the drift (C01 owns this question)
                DEGRADED.append("dateline: %s _min_days/_max_days %r differ from public month walk %r; public used" % (cal.id, prv, pub))
        except AttributeError:
            pass
        r = _RANGE[cal.id] = pub
    return r


_YEAR = {}


def _year_info(cal, year):
    """(months in chronological order, first day number, last day number) of a year - cached per process."""
    k = (cal.id, year)
    r = _YEAR.get(k)
    if r is None:
        starts = sorted((daynum(LocalDate(year, m, 1, cal)), m) for m in range(1, cal.get_months_in_year(year) + 1))
        lastm = starts[-1][1]
        r = _YEAR[k] = ([m for _, m in starts], starts[0][0], starts[-1][0] + cal.get_days_in_month(year, lastm) - 1)
        if len(_YEAR) > 200_000:
            _YEAR.clear()
    return r


def month_order(cal, year):
    """Months of `year` in chronological order, decided on the day-number line (Hebrew scriptural: 7..12/13,1..6)."""
    return _year_info(cal, year)[0]


def year_start(cal, year) -> int:
    """day number of the first day of `year` (public construction of every month start, min on the day line)."""
    return _year_info(cal, year)[1]


def year_end(cal, year) -> int:
    """day number of the last day of `year`: start of the chronologically last month + its public length - 1."""
    return _year_info(cal, year)[2]


def ymd(d):
    return (d.year, d.month, d.day)


def revalidate(d):
    """Re-construct the date through the validating public constructor; raises when (y, m, d) is not a valid date."""
    return LocalDate(d.year, d.month, d.day, d.calendar)


def leap_year_near(cal, year):
    """first leap year >= year inside the calendar range (or None)."""
    for y in range(year, min(cal.max_year, year + 40) + 1):
        if cal.is_leap_year(y):
            return y
    return None


daynum = _daynum_private
from_daynum = _from_daynum_private
_selfcheck()
