"""Binding to the day-number line of pyoda_time calendars, shared by C09 / C16 / C18.

The day-number line (days since 1970-01-01 ISO) is the reference axis of the oracles: a LocalDate is mapped to a
plain int and all set / arithmetic reasoning is done on ints.  The bijection date <-> day number itself is the
subject of C01/C02 and is *assumed* here.

Private fast paths (`LocalDate._days_since_epoch`, `LocalDate._ctor(days_since_epoch=, calendar=)`,
`CalendarSystem._min_days/_max_days`) are used only after a start-up self-check against their public equivalents
(`Period.days_between`, `plus_days(...).with_calendar(...)`); when a private path is missing or disagrees the public
path is used instead and DEGRADED lists what happened (reported under coverage.degraded, never an alarm).
"""
from __future__ import annotations

from pyoda_time import CalendarSystem, LocalDate, Period

DEGRADED: list = []
_ISO_EPOCH = LocalDate(1970, 1, 1)
_EPOCH_IN = {}


def _epoch_in(cal):
    e = _EPOCH_IN.get(cal.id)
    if e is None:
        e = _EPOCH_IN[cal.id] = _ISO_EPOCH.with_calendar(cal)
    return e


def _daynum_public(d) -> int:
    return Period.days_between(_epoch_in(d.calendar), d)


def _daynum_private(d) -> int:
    return d._days_since_epoch


def _from_daynum_public(n: int, cal):
    return _ISO_EPOCH.plus_days(n).with_calendar(cal)


def _from_daynum_private(n: int, cal):
    return LocalDate._ctor(days_since_epoch=n, calendar=cal)


def calendars():
    """[(id, CalendarSystem)] in the order the library exposes them."""
    return [(i, CalendarSystem.for_id(i)) for i in CalendarSystem.ids]


DISAGREEMENTS: list = []     # library defects seen by the self-check (private and public day-number paths disagree, private is right)


def _selfcheck():
    """Choose the day-number binding.  Private and public paths must agree on a probe set.  When they do not, the standard
    library arbitrates on ISO dates: if the private path matches datetime.date.toordinal it stays the oracle binding and the
    disagreement is recorded as a library defect (Period.days_between is wrong somewhere - e.g. state carried between
    calendars); if only the public path matches, the private attribute has drifted and the public path is used (degraded)."""
    import datetime
    global daynum, from_daynum
    daynum, from_daynum = _daynum_private, _from_daynum_private
    probes = (-1, 0, 1, 59, 60, 365, 366, 11016, 20000, -20000)
    try:
        for n in probes:            # private path usable and right on ISO?
            d = _from_daynum_private(n, CalendarSystem.iso)
            if _daynum_private(d) != n or datetime.date(d.year, d.month, d.day).toordinal() - 719163 != n:
                raise AssertionError("private day-number path disagrees with datetime for ISO day %d" % n)
    except Exception as e:  # noqa: BLE001 - missing / drifted private API => public path
        daynum, from_daynum = _daynum_public, _from_daynum_public
        DEGRADED.append("dateline: private day-number fast path unavailable (%s: %s); public path used" % (type(e).__name__, str(e)[:80]))
        return
    for _, cal in calendars():
        try:
            lo, hi = cal._min_days, cal._max_days
        except AttributeError:
            lo, hi = _range_public(cal)
        for n in probes:
            if not (lo <= n <= hi):
                continue
            try:
                a = _from_daynum_private(n, cal)
                pub = (_daynum_public(a), ymd(_from_daynum_public(n, cal)))
                if _daynum_private(a) != n:
                    raise AssertionError("private round trip broken")
            except Exception as e:  # noqa: BLE001
                DEGRADED.append("dateline: self-check probe failed for %s day %d (%s); private path kept (it matches datetime on ISO)" % (cal.id, n, type(e).__name__))
                continue
            if pub != (n, ymd(a)):
                DISAGREEMENTS.append({"calendar": cal.id, "day_number": n, "date": ymd(a), "public_days_between_epoch": pub[0], "public_plus_days_with_calendar": list(pub[1])})


def report_disagreements(acc, pid):
    """called by the checks: a private/public disagreement in which the private path agrees with datetime is a library defect."""
    for d in DISAGREEMENTS[:20]:
        acc.violation("%s/day-number-line/days_between-or-plus_days-disagrees-with-day-number/%s" % (pid, d["calendar"]),
                      "Period.days_between(1970-01-01 in %s, %s) = %s / 1970-01-01.plus_days(%d).with_calendar = %s, but the date's day number is %d "
                      "(asked after the same questions in other calendars)" % (d["calendar"], d["date"], d["public_days_between_epoch"], d["day_number"],
                                                                               d["public_plus_days_with_calendar"], d["day_number"]), d)


_RANGE = {}


def _range_public(cal):
    """first/last day number of the calendar using public API only: the extreme month starts of min/max year."""
    lo = None
    for m in range(1, cal.get_months_in_year(cal.min_year) + 1):
        n = daynum(LocalDate(cal.min_year, m, 1, cal))
        lo = n if lo is None or n < lo else lo
    hi = None
    y = cal.max_year
    for m in range(1, cal.get_months_in_year(y) + 1):
        n = daynum(LocalDate(y, m, cal.get_days_in_month(y, m), cal))
        hi = n if hi is None or n > hi else hi
    return lo, hi


def cal_range(cal):
    """(first day number, last day number) of the calendar."""
    r = _RANGE.get(cal.id)
    if r is None:
        pub = _range_public(cal)
        try:
            prv = (cal._min_days, cal._max_days)
            if prv != pub:
                # the public walk is the definition used by the oracles; note the drift (C01 owns this question)
                DEGRADED.append("dateline: %s _min_days/_max_days %r differ from public month walk %r; public used" % (cal.id, prv, pub))
        except AttributeError:
            pass
        r = _RANGE[cal.id] = pub
    return r


_YEAR = {}


def _year_info(cal, year):
    """(months in chronological order, first day number, last day number) of a year - cached per process."""
    k = (cal.id, year)
    r = _YEAR.get(k)
    if r is None:
        starts = sorted((daynum(LocalDate(year, m, 1, cal)), m) for m in range(1, cal.get_months_in_year(year) + 1))
        lastm = starts[-1][1]
        r = _YEAR[k] = ([m for _, m in starts], starts[0][0], starts[-1][0] + cal.get_days_in_month(year, lastm) - 1)
        if len(_YEAR) > 200_000:
            _YEAR.clear()
    return r


def month_order(cal, year):
    """Months of `year` in chronological order, decided on the day-number line (Hebrew scriptural: 7..12/13,1..6)."""
    return _year_info(cal, year)[0]


def year_start(cal, year) -> int:
    """day number of the first day of `year` (public construction of every month start, min on the day line)."""
    return _year_info(cal, year)[1]


def year_end(cal, year) -> int:
    """day number of the last day of `year`: start of the chronologically last month + its public length - 1."""
    return _year_info(cal, year)[2]


def ymd(d):
    return (d.year, d.month, d.day)


def revalidate(d):
    """Re-construct the date through the validating public constructor; raises when (y, m, d) is not a valid date."""
    return LocalDate(d.year, d.month, d.day, d.calendar)


def leap_year_near(cal, year):
    """first leap year >= year inside the calendar range (or None)."""
    for y in range(year, min(cal.max_year, year + 40) + 1):
        if cal.is_leap_year(y):
            return y
    return None


daynum = _daynum_private
from_daynum = _from_daynum_private
_selfcheck()


# ---- field values shared by many calendars (cross-calendar history checks of C09 / C18)
CROSS_MD = ((1, 28), (2, 1), (2, 19), (2, 20), (3, 1), (3, 5), (6, 29), (7, 1), (12, 29))


def cross_fields(years, mds=CROSS_MD):
    """[(y, m, d)] field triples and {triple: {calendar id: LocalDate}} for every calendar in which the triple is a valid
    date (decided by the validating public constructor).  For each year the first two days of year+1 are added too."""
    fields = []
    for y in years:
        fields += [(y, m, d) for m, d in mds] + [(y + 1, 1, 1), (y + 1, 1, 2)]
    valid = {}
    for f in fields:
        per = {}
        for cid, cal in calendars():
            try:
                per[cid] = LocalDate(f[0], f[1], f[2], cal)
            except Exception:  # noqa: BLE001 - not a date of that calendar
                continue
        valid[f] = per
    return fields, valid


def history_orders(pairs, cids, seed=0):
    """{order name: [(pair, calendar id)]} - the same (pair, calendar) steps visited in different orders inside one process."""
    r = seed % max(1, len(cids))
    cs = cids[r:] + cids[:r]
    out = {
        "pair-major-forward": [(p, c) for p in pairs for c in cs],
        "pair-major-reverse": [(p, c) for p in pairs for c in reversed(cs)],
        "calendar-major": [(p, c) for c in cs for p in pairs],
        "interleaved": [(p, (cs[i % len(cs):] + cs[:i % len(cs)])[::(1 if i % 2 == 0 else -1)][k]) for i, p in enumerate(pairs) for k in range(len(cs))],
    }
    return out
