"""Independent reference calendars written from the published algorithms (Calendrical-Calculations style
fixed-day formulas).  Day numbers are days since 1970-01-01 ISO (= RD - 719163).  Nothing here imports pyoda_time.

Each reference exposes:  year_start(y), month_order(y) (month numbers in the order they occur in year y),
month_len(y, m), is_leap(y), valid_from_year (first year for which the published rule is claimed).
"""
from __future__ import annotations

RD_UNIX = 719163


def greg_leap(y):
    return y % 4 == 0 and (y % 100 != 0 or y % 400 == 0)


def greg_fixed(y, m, d):
    return (365 * (y - 1) + (y - 1) // 4 - (y - 1) // 100 + (y - 1) // 400 + (367 * m - 362) // 12
            + (0 if m <= 2 else (-1 if greg_leap(y) else -2)) + d)


def jul_leap(y):
    return y % 4 == 0


def jul_fixed(y, m, d):
    # astronomical year numbering (year 0 = 1 BCE); Julian 0001-01-01 = RD -1
    return (-2 + 365 * (y - 1) + (y - 1) // 4 + (367 * m - 362) // 12
            + (0 if m <= 2 else (-1 if jul_leap(y) else -2)) + d)


def civil_from_days(n):
    """proleptic Gregorian (y, m, d) for a day number since 1970-01-01 (Howard Hinnant's algorithm, independent of the above)."""
    z = n + 719468
    era = z // 146097
    doe = z - era * 146097
    yoe = (doe - doe // 1460 + doe // 36524 - doe // 146096) // 365
    y = yoe + era * 400
    doy = doe - (365 * yoe + yoe // 4 - yoe // 100)
    mp = (5 * doy + 2) // 153
    d = doy - (153 * mp + 2) // 5 + 1
    m = mp + 3 if mp < 10 else mp - 9
    return (y + (1 if m <= 2 else 0), m, d)


class Ref:
    valid_from_year = None   # None = whole range

    def month_order(self, y):
        return list(range(1, self.months_in_year(y) + 1))

    def year_len(self, y):
        return sum(self.month_len(y, m) for m in self.month_order(y))


class Gregorian(Ref):
    def year_start(self, y):
        return greg_fixed(y, 1, 1) - RD_UNIX

    def is_leap(self, y):
        return greg_leap(y)

    def months_in_year(self, y):
        return 12

    def month_len(self, y, m):
        return [31, 29 if greg_leap(y) else 28, 31, 30, 31, 30, 31, 31, 30, 31, 30, 31][m - 1]


class Julian(Ref):
    def year_start(self, y):
        return jul_fixed(y, 1, 1) - RD_UNIX

    def is_leap(self, y):
        return jul_leap(y)

    def months_in_year(self, y):
        return 12

    def month_len(self, y, m):
        return [31, 29 if jul_leap(y) else 28, 31, 30, 31, 30, 31, 31, 30, 31, 30, 31][m - 1]


class Coptic(Ref):
    EPOCH = 103605  # RD of 1 Thout AM 1 = 29 August 284 CE (Julian)

    def year_start(self, y):
        return self.EPOCH - 1 + 365 * (y - 1) + y // 4 + 1 - RD_UNIX

    def is_leap(self, y):
        return y % 4 == 3

    def months_in_year(self, y):
        return 13

    def month_len(self, y, m):
        return 30 if m <= 12 else (6 if self.is_leap(y) else 5)


ISL_PATTERNS = {
    "Base15": {2, 5, 7, 10, 13, 15, 18, 21, 24, 26, 29},
    "Base16": {2, 5, 7, 10, 13, 16, 18, 21, 24, 26, 29},
    "Indian": {2, 5, 8, 10, 13, 16, 19, 21, 24, 27, 29},
    "HabashAlHasib": {2, 5, 8, 11, 13, 16, 19, 21, 24, 27, 30},
}
ISL_EPOCH = {"Civil": 227015, "Astronomical": 227014}   # Fri 16 / Thu 15 July 622 CE (Julian)


class Islamic(Ref):
    def __init__(self, epoch, pattern):
        self.epoch = ISL_EPOCH[epoch]
        self.pat = ISL_PATTERNS[pattern]
        self.cum = [0]
        for k in range(1, 31):
            self.cum.append(self.cum[-1] + (355 if k in self.pat else 354))

    def is_leap(self, y):
        c = y % 30
        return (30 if c == 0 else c) in self.pat

    def year_start(self, y):
        cycles, rem = divmod(y - 1, 30)
        return self.epoch + cycles * self.cum[30] + self.cum[rem] - RD_UNIX

    def months_in_year(self, y):
        return 12

    def month_len(self, y, m):
        if m == 12:
            return 30 if self.is_leap(y) else 29
        return 30 if m % 2 == 1 else 29


def heb_leap(y):
    return (7 * y + 1) % 19 < 7


def heb_elapsed(y):
    months = (235 * y - 234) // 19
    parts = 12084 + 13753 * months
    day = 29 * months + parts // 25920
    if (3 * (day + 1)) % 7 < 3:
        day += 1
    return day


def heb_corr(y):
    ny0, ny1, ny2 = heb_elapsed(y - 1), heb_elapsed(y), heb_elapsed(y + 1)
    if ny2 - ny1 == 356:
        return 2
    if ny1 - ny0 == 382:
        return 1
    return 0


HEB_EPOCH = -1373427


def heb_new_year(y):
    return HEB_EPOCH + heb_elapsed(y) + heb_corr(y)


class Hebrew(Ref):
    """numbering = 'scriptural' (Nisan = 1, year starts at month 7) or 'civil' (Tishri = 1)."""

    def __init__(self, numbering):
        self.numbering = numbering

    def is_leap(self, y):
        return heb_leap(y)

    def year_start(self, y):
        return heb_new_year(y) - RD_UNIX

    def months_in_year(self, y):
        return 13 if heb_leap(y) else 12

    def _scriptural_len(self, y, sm):
        ylen = heb_new_year(y + 1) - heb_new_year(y)
        if sm in (1, 3, 5, 7, 11):
            return 30
        if sm in (2, 4, 6, 10, 13):
            return 29
        if sm == 8:
            return 30 if ylen % 10 == 5 else 29
        if sm == 9:
            return 29 if ylen % 10 == 3 else 30
        if sm == 12:
            return 30 if heb_leap(y) else 29
        raise ValueError(sm)

    def _scriptural_order(self, y):
        return [7, 8, 9, 10, 11, 12] + ([13] if heb_leap(y) else []) + [1, 2, 3, 4, 5, 6]

    def month_order(self, y):
        if self.numbering == "scriptural":
            return self._scriptural_order(y)
        return list(range(1, self.months_in_year(y) + 1))

    def month_len(self, y, m):
        if self.numbering == "scriptural":
            return self._scriptural_len(y, m)
        return self._scriptural_len(y, self._scriptural_order(y)[m - 1])


class PersianSimple(Ref):
    EPOCH = greg_fixed(622, 3, 21)   # documented: March 21st 622 CE

    def is_leap(self, y):
        return y % 33 in (1, 5, 9, 13, 17, 22, 26, 30)

    def year_start(self, y):
        cycles, rem = divmod(y - 1, 33)
        days = cycles * (33 * 365 + 8) + rem * 365 + sum(1 for k in range(1, rem + 1) if k % 33 in (1, 5, 9, 13, 17, 22, 26, 30))
        return self.EPOCH + days - RD_UNIX

    def months_in_year(self, y):
        return 12

    def month_len(self, y, m):
        return 31 if m <= 6 else (30 if m <= 11 else (30 if self.is_leap(y) else 29))


class PersianArithmetic(PersianSimple):
    EPOCH = 226896   # 19 March 622 CE (Julian)
    valid_from_year = 475

    def is_leap(self, y):
        yy = (y - 474) % 2820 + 474
        return ((yy + 38) * 31) % 128 < 31

    def year_start(self, y):
        yy = (y - 474) % 2820 + 474
        return self.EPOCH - 1 + 1029983 * ((y - 474) // 2820) + 365 * (yy - 1) + (31 * yy - 5) // 128 + 1 - RD_UNIX


def for_id(cal_id: str):
    """reference for a pyoda-time calendar id, or None when its rules are table data rather than published arithmetic"""
    if cal_id in ("ISO", "Gregorian"):
        return Gregorian()
    if cal_id == "Julian":
        return Julian()
    if cal_id == "Coptic":
        return Coptic()
    if cal_id.startswith("Hijri "):
        ep, pat = cal_id[len("Hijri "):].split("-")
        return Islamic(ep, pat)
    if cal_id == "Hebrew Civil":
        return Hebrew("civil")
    if cal_id == "Hebrew Scriptural":
        return Hebrew("scriptural")
    if cal_id == "Persian Simple":
        return PersianSimple()
    if cal_id == "Persian Arithmetic":
        return PersianArithmetic()
    return None


def iso_weekday(n):
    """ISO day of week 1..7 (Monday = 1) of a day number since 1970-01-01 (a Thursday)."""
    return (n + 3) % 7 + 1
