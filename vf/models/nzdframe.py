"""Independent splitter of a Noda Time ".nzd" container into its fields (used by C14 and C20).

File = 4-byte version (little-endian int32, must be 0) followed by fields; field = 1 id byte, varint payload length,
payload.  Imports nothing from pyoda_time.
"""
from __future__ import annotations

from collections import namedtuple

from vf.models.nzdcodec import Bad, Dec

Field = namedtuple("Field", "index fid start len_start payload_start end")
#  start         offset of the id byte
#  len_start     offset of the first length byte (= start + 1)
#  payload_start offset of the first payload byte
#  end           offset one past the last payload byte

FIELD_NAMES = {0: "string-pool", 1: "zone", 2: "tzdb-version", 3: "id-map", 4: "windows-zones", 5: "windows-names",
               6: "zone-locations", 7: "zone-1970-locations"}


def split(data: bytes):
    """-> (version:int, [Field...]); raises Bad when the framing itself is broken"""
    if len(data) < 4:
        raise Bad("header")
    version = int.from_bytes(data[:4], "little", signed=True)
    p = 4
    fields = []
    while p < len(data):
        d = Dec(data, None, p + 1)
        n = d.count()
        if d.p + n > len(data):
            raise Bad("field %d runs past the end" % len(fields))
        fields.append(Field(len(fields), data[p], p, p + 1, d.p, d.p + n))
        p = d.p + n
    return version, fields


def payload(data: bytes, f: Field) -> bytes:
    return data[f.payload_start:f.end]


def string_pool(data: bytes, fields):
    for f in fields:
        if f.fid == 0:
            d = Dec(payload(data, f))
            return [d.string() for _ in range(d.count())]
    return None


def zone_ids(data: bytes, fields, pool):
    """{field index: zone id} for every TIME_ZONE field"""
    out = {}
    for f in fields:
        if f.fid == 1:
            out[f.index] = Dec(payload(data, f), pool).string()
    return out


def id_map(data: bytes, fields, pool):
    for f in fields:
        if f.fid == 3:
            return Dec(payload(data, f), pool).dictionary()
    return None
