"""Reference model for C12: a value is (type, key, order, group).

key    the documented components of the value as a plain tuple of ints / strings (what equality is defined on);
order  a plain comparable tuple giving the position on the timeline / day line (None for types without ordering);
group  values may only be ordered against values of the same group (the calendar id); None = one group.

Everything the property says about ==, !=, hash, <, <=, >, >=, compare_to, min, max, sorted is a function of these.
No pyoda_time import here.
"""
from __future__ import annotations

NSD = 86_400 * 10**9


def sign(x):
    return (x > 0) - (x < 0)


def exp_eq(a, b):
    return a.key == b.key


def comparable(a, b):
    return a.order is not None and b.order is not None and a.group == b.group


def exp_cmp(a, b):
    """-1 / 0 / +1 of a against b on the timeline (only for comparable values)."""
    return (a.order > b.order) - (a.order < b.order)


def chron(cal_id, year, month, day=0):
    """Chronological position of (year, month, day) inside one calendar.

    In every supported calendar months are numbered in chronological order inside a year, except the Hebrew calendar with
    scriptural numbering: there the year begins with month 7 (Tishri) and runs 7, 8, ..., 12 (13 in leap years), 1, ..., 6."""
    if cal_id == "Hebrew Scriptural":
        return (year, 0 if month >= 7 else 1, month, day)
    return (year, 0, month, day)


def days_from_civil(y, m, d):
    """Proleptic Gregorian (ISO) day number, 1970-01-01 = 0 (public-domain algorithm by H. Hinnant)."""
    y -= m <= 2
    era = (y if y >= 0 else y - 399) // 400
    yoe = y - era * 400
    doy = (153 * (m + (-3 if m > 2 else 9)) + 2) // 5 + d - 1
    doe = yoe * 365 + yoe // 4 - yoe // 100 + doy
    return era * 146097 + doe - 719468


def days_from_julian(y, m, d):
    """Proleptic Julian calendar day number, 1970-01-01 (Gregorian) = 0."""
    y -= m <= 2
    era = (y if y >= 0 else y - 3) // 4
    yoe = y - era * 4
    doy = (153 * (m + (-3 if m > 2 else 9)) + 2) // 5 + d - 1
    return era * 1461 + yoe * 365 + doy - 719470


class Entry:
    """One alphabet value: the model triple plus how it was built (label) and the real object."""

    __slots__ = ("key", "order", "group", "label", "value", "build")

    def __init__(self, key, order, group, label, build):
        self.key = key
        self.order = order
        self.group = group
        self.label = label
        self.build = build
        self.value = None

    def __repr__(self):
        return "<%s key=%r>" % (self.label, self.key)
