"""Reference model for C16: week-year rules and weekday navigation on the day-number line (plain ints).

A rule is (min_days_in_first_week, first_day_of_week 1..7 Monday..Sunday, irregular).
Week 1 of week-year Y starts on the first_day_of_week on or before the first day S(Y) of calendar year Y when that week has
at least min_days days inside Y, otherwise one week later:

    W1(Y) = S(Y) - into           if 7 - into >= min_days      (into = days from the week's first day to S(Y))
          = S(Y) - into + 7       otherwise

regular rule  : a date n belongs to the week-year Y with W1(Y) <= n < W1(Y+1); week = (n - W1(Y)) // 7 + 1;
                weeks in Y = (W1(Y+1) - W1(Y)) / 7.
irregular rule: (BCL style) a date of calendar year Y belongs to week-year Y unless n < W1(Y) (then Y-1);
                week = (n - W1(wy)) // 7 + 1 with W1 the *nominal* start (may lie in the previous calendar year);
                weeks in Y = week number of the last day of calendar year Y.
Nothing here imports pyoda_time; the caller supplies S(Y) (year starts as day numbers since 1970-01-01).
"""
from __future__ import annotations


def dow(n: int) -> int:
    """ISO day of week (1 = Monday .. 7 = Sunday) of day number n; 1970-01-01 (n = 0) was a Thursday."""
    return (n + 3) % 7 + 1


def w1(start_of_year: int, min_days: int, first_dow: int) -> int:
    into = (dow(start_of_year) - first_dow) % 7
    week_start = start_of_year - into
    return week_start if 7 - into >= min_days else week_start + 7


class Unknown(Exception):
    """the model needs the start of a year the calendar does not expose (min_year - 1)"""


class WeekModel:
    def __init__(self, year_start_fn, min_year, max_year, end_of_max_year):
        self._ys = year_start_fn
        self.min_year, self.max_year = min_year, max_year
        self._end = end_of_max_year

    def S(self, y):
        if y == self.max_year + 1:
            return self._end + 1
        if y < self.min_year or y > self.max_year + 1:
            raise Unknown()
        return self._ys(y)

    def W1(self, y, rule):
        return w1(self.S(y), rule[0], rule[1])

    def locate(self, n, cal_year, rule):
        """(week_year, week) of day n lying in calendar year cal_year."""
        md, fd, irregular = rule
        a = self.W1(cal_year, rule)
        if n < a:
            wy = cal_year - 1
            return wy, (n - self.W1(wy, rule)) // 7 + 1
        if irregular:
            return cal_year, (n - a) // 7 + 1
        b = self.W1(cal_year + 1, rule)      # may need S(max+1) = end + 1, which is known
        if n >= b:
            return cal_year + 1, (n - b) // 7 + 1
        return cal_year, (n - a) // 7 + 1

    def weeks_in(self, wy, rule):
        md, fd, irregular = rule
        a = self.W1(wy, rule)
        if irregular:
            last = self.S(wy + 1) - 1
            return (last - a) // 7 + 1
        return (self.W1(wy + 1, rule) - a) // 7


# ---- weekday navigation by brute-force scan (deliberately not closed-form)
def scan_next(n, target, strict=True):
    k = n + 1 if strict else n
    while dow(k) != target:
        k += 1
    return k


def scan_prev(n, target, strict=True):
    k = n - 1 if strict else n
    while dow(k) != target:
        k -= 1
    return k


# ---- proleptic Gregorian day numbers for the n-th-weekday oracle (independent of pyoda_time and of datetime)
def days_from_civil(y, m, d):
    y -= m <= 2
    era = y // 400          # floor division (Python), equivalent to the (y >= 0 ? y : y - 399) / 400 of the C original
    yoe = y - era * 400
    doy = (153 * (m + (-3 if m > 2 else 9)) + 2) // 5 + d - 1
    doe = yoe * 365 + yoe // 4 - yoe // 100 + doy
    return era * 146097 + doe - 719468


def greg_days_in_month(y, m):
    if m == 2:
        return 29 if (y % 4 == 0 and (y % 100 != 0 or y % 400 == 0)) else 28
    return 30 if m in (4, 6, 9, 11) else 31


def nth_weekday(y, m, occurrence, target):
    """day of month of the occurrence-th `target` weekday of (y, m); occurrence 5 = the last one.  Brute-force scan."""
    hits = [d for d in range(1, greg_days_in_month(y, m) + 1) if dow(days_from_civil(y, m, d)) == target]
    return hits[-1] if occurrence == 5 else hits[occurrence - 1]
