"""Evaluator of the yearly tail rules of a decoded .nzd zone, in plain integer calendar arithmetic.

Independent of pyoda_time.  Instants are ints (ns since 1970-01-01T00:00Z); intervals are tuples
(start | None, end | None, name, wall seconds, savings seconds) where None means the start / end of time.

Semantics (from the tz database / format description): a tail has a standard offset and two yearly rules, one
switching daylight time on (savings s) and one switching it off (savings 0).  Each rule names a local date and
time of day; the frame of that local time is UTC (mode 0), wall time (mode 1) or standard time (mode 2), where
"wall" means the offset in force *just before* the transition - i.e. the other rule's savings.
The state at an instant is the state established by the most recent rule occurrence at or before it.
"""
from __future__ import annotations

from .nzdref import DAY_NS, MS, NEG, NS, POS

MIN_NS = -4371222 * DAY_NS                      # -9998-01-01T00:00:00Z
MAX_NS = (2932896 + 1) * DAY_NS - 1             # 9999-12-31T23:59:59.999999999Z


def days_from_civil(y, m, d):
    """days since 1970-01-01 of the proleptic Gregorian date (H. Hinnant's algorithm)"""
    y -= m <= 2
    era = y // 400
    yoe = y - era * 400
    doy = (153 * (m + (-3 if m > 2 else 9)) + 2) // 5 + d - 1
    doe = yoe * 365 + yoe // 4 - yoe // 100 + doy
    return era * 146097 + doe - 719468


def civil_from_days(z):
    z += 719468
    era = z // 146097
    doe = z - era * 146097
    yoe = (doe - doe // 1460 + doe // 36524 - doe // 146096) // 365
    y = yoe + era * 400
    doy = doe - (365 * yoe + yoe // 4 - yoe // 100)
    mp = (5 * doy + 2) // 153
    d = doy - (153 * mp + 2) // 5 + 1
    m = mp + 3 if mp < 10 else mp - 9
    return (y + (m <= 2), m, d)


def is_leap(y):
    return y % 4 == 0 and (y % 100 != 0 or y % 400 == 0)


def days_in_month(y, m):
    return (31, 29 if is_leap(y) else 28, 31, 30, 31, 30, 31, 31, 30, 31, 30, 31)[m - 1]


def weekday(days):
    """1 = Monday .. 7 = Sunday (1970-01-01 was a Thursday)"""
    return (days + 3) % 7 + 1


def year_of_ns(ns):
    return civil_from_days(ns // DAY_NS)[0]


def occurrence_local_ns(rule, y):
    """local nanoseconds (on the rule's own local time line) at which the rule fires in year y"""
    m = rule["month"]
    d = rule["dom"]
    day = d if d > 0 else days_in_month(y, m) + d + 1
    if m == 2 and d == 29 and not is_leap(y):
        day = 28
    days = days_from_civil(y, m, day)
    want = rule["dow"]
    if want:
        have = weekday(days)
        if have != want:
            if rule["advance"]:
                days += (want - have) % 7
            else:
                days -= (have - want) % 7
    if rule["add_day"]:
        days += 1
    return days * DAY_NS + rule["tod_ms"] * MS


def frame_offset_seconds(rule, std, savings_before):
    mode = rule["mode"]
    if mode == 1:
        return std + savings_before
    if mode == 2:
        return std
    if mode == 0:
        return 0
    raise ValueError("unknown transition mode %r" % mode)


def tail_transitions(tail, y0, y1):
    """sorted [(utc ns, name, wall s, savings s)]: every rule occurrence of years y0..y1, with the state it establishes"""
    out = []
    std = tail["std"]
    for y in range(y0, y1 + 1):
        # daylight rule fires while standard time is in force (savings before = 0)
        t = occurrence_local_ns(tail["drule"], y) - frame_offset_seconds(tail["drule"], std, 0) * NS
        out.append((t, tail["dname"], std + tail["sav"], tail["sav"]))
        # standard rule fires while daylight time is in force
        t = occurrence_local_ns(tail["srule"], y) - frame_offset_seconds(tail["srule"], std, tail["sav"]) * NS
        out.append((t, tail["sname"], std, 0))
    out.sort(key=lambda r: r[0])
    return out


def precalc_intervals(zone):
    """the stored periods as interval tuples"""
    out = []
    for (s, e, name, wall, sav) in zone["periods"]:
        out.append((None if s == NEG else s, None if e == POS else e, name, wall, sav))
    return out


def tail_start(zone):
    """ns at which the tail takes over, or None when the zone has no tail"""
    if zone.get("kind") != "precalc" or zone["tail"] is None:
        return None
    e = zone["periods"][-1][1]
    return None if e in (NEG, POS) else e


def expected_intervals(zone, lo, hi):
    """All intervals of the zone that intersect the closed instant range [lo, hi] (ints within MIN_NS..MAX_NS), in order."""
    if zone["kind"] == "fixed":
        return [(None, None, zone["name"], zone["offset"], 0)]
    pre = precalc_intervals(zone)
    ts = tail_start(zone)
    out = []
    for iv in pre:
        s = MIN_NS - 1 if iv[0] is None else iv[0]
        e = MAX_NS + 1 if iv[1] is None else iv[1]
        if s <= hi and e > lo:
            out.append(iv)
    if ts is None or hi < ts:
        return out
    tail = zone["tail"]
    y0 = year_of_ns(max(lo, ts)) - 1
    y1 = min(year_of_ns(hi) + 1, 9999)
    trs = tail_transitions(tail, y0, y1)
    # state in force at max(lo, ts): the most recent occurrence at or before it
    at = max(lo, ts)
    k = None
    for i, tr in enumerate(trs):
        if tr[0] <= at:
            k = i
    if k is None:
        raise ValueError("no rule occurrence before %d" % at)
    seq = [trs[k]] + [tr for tr in trs[k + 1:] if tr[0] <= MAX_NS]
    for i, (t, name, wall, sav) in enumerate(seq):
        start = max(t, ts)            # the first tail interval is clamped to the end of the stored periods
        if i + 1 < len(seq):
            end = seq[i + 1][0]
        elif y1 >= 9999:
            end = None                # nothing later fits below the end of time
        else:
            break                     # generated range exhausted (cannot happen for hi inside it)
        if start > hi:
            break
        out.append((start, end, name, wall, sav))
    return out
