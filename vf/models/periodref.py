"""Reference model for C09: period arithmetic on python ints.

* fixed-length part of a period: one int of nanoseconds.
* month line of a calendar: a linear index over (year, month) pairs in chronological order, built only from the
  calendar's public tables (`get_months_in_year`, and the day numbers of the month starts for the order of the
  months inside a year) - no use of the library's month arithmetic.
* documented per-calendar rules for the day of month after a month / year move:
    regular calendars : keep month (years) / linear month (months), day = min(day, days in target month)
    Hebrew            : months - same; years - Adar rules and the "30th of Heshvan/Kislev/Adar I rolls to the 1st of the
                        next month" rule quoted from _HebrewYearMonthDayCalculator._set_year (the documented rule)
    Badi              : years - day clamped to the length of month 18 (which carries Ayyam-i-Ha);
                        months - for a start outside Ayyam-i-Ha the day is kept; for a start inside Ayyam-i-Ha (month 18,
                        day > 19) the code documents "not clear that this is correct", so the model only pins the
                        result to a window (see CalModel.add_months).
"""
from __future__ import annotations

import bisect

NS = {"weeks": 7 * 86_400 * 10**9, "days": 86_400 * 10**9, "hours": 3600 * 10**9, "minutes": 60 * 10**9, "seconds": 10**9,
      "milliseconds": 10**6, "ticks": 100, "nanoseconds": 1}
FIELDS = ("years", "months", "weeks", "days", "hours", "minutes", "seconds", "milliseconds", "ticks", "nanoseconds")
DATE_FIELDS = FIELDS[:4]
TIME_FIELDS = FIELDS[4:]


def fixed_total_ns(comp: dict) -> int:
    """weeks*7d + days + h + m + s + ms + ticks + ns as one int (years/months excluded)."""
    return sum(comp.get(f, 0) * NS[f] for f in NS)


def trunc_div(a: int, b: int) -> int:
    q = abs(a) // abs(b)
    return q if (a >= 0) == (b >= 0) else -q


def sign(x: int) -> int:
    return (x > 0) - (x < 0)


class OutOfRange(Exception):
    pass


class CalModel:
    """Month line of one calendar.  `cal` is only asked for its public tables."""

    def __init__(self, cal, month_order_fn):
        self.cal = cal
        self.min_year, self.max_year = cal.min_year, cal.max_year
        self.family = "hebrew" if cal.id.startswith("Hebrew") else "badi" if cal.id == "Badi" else "regular"
        self._order_fn = month_order_fn
        self._order = {}
        self.prefix = [0]
        for y in range(self.min_year, self.max_year + 1):
            self.prefix.append(self.prefix[-1] + cal.get_months_in_year(y))
        self.total = self.prefix[-1]

    def order(self, y):
        o = self._order.get(y)
        if o is None:
            o = self._order[y] = self._order_fn(self.cal, y)
        return o

    def index(self, y, m) -> int:
        return self.prefix[y - self.min_year] + self.order(y).index(m)

    def at(self, idx):
        if not (0 <= idx < self.total):
            raise OutOfRange()
        k = bisect.bisect_right(self.prefix, idx) - 1
        y = self.min_year + k
        return y, self.order(y)[idx - self.prefix[k]]

    def dim(self, y, m):
        return self.cal.get_days_in_month(y, m)

    # ---- months
    def add_months(self, y, m, d, n):
        """-> set of acceptable (y, m, d) results (one element except for Badi Ayyam-i-Ha starts); raises OutOfRange."""
        if n == 0:
            return {(y, m, d)}
        idx = self.index(y, m)
        if self.family == "badi" and m == 18 and d > 19:
            # documented-but-doubted rule: Ayyam-i-Ha is treated as a pseudo month between 18 and 19.  Accept
            # either reading: the month n away from month 18 with the day clamped, or the pseudo-month reading
            # (day - 19 in month 18+n going forward / 19+n going backward).
            ok = set()
            readings = [(idx + n, None),                                   # month n away from month 18, day clamped
                        (idx + n if n > 0 else idx + n + 1, d - 19)]       # pseudo-month reading of the code
            for tgt, dd in readings:
                try:
                    ty, tm = self.at(tgt)
                except OutOfRange:
                    continue
                ok.add((ty, tm, min(d, self.dim(ty, tm)) if dd is None else dd))
            if not ok:
                raise OutOfRange()
            return ok
        ty, tm = self.at(idx + n)
        return {(ty, tm, min(d, self.dim(ty, tm)))}

    # ---- years
    def hebrew_scriptural(self, y, m):
        """calendar month number -> scriptural month number (Nisan = 1) using only leap-ness and the numbering."""
        if self.cal.id == "Hebrew Scriptural":
            return m
        leap = self.cal.is_leap_year(y)
        if m <= 6:
            return m + 6                      # Tishri..Adar (Adar I in a leap year) = 7..12
        if leap:
            return 13 if m == 7 else m - 7    # Adar II, then Nisan..Elul = 1..6
        return m - 6

    def hebrew_from_scriptural(self, y, s):
        if self.cal.id == "Hebrew Scriptural":
            return s
        leap = self.cal.is_leap_year(y)
        if s >= 7:
            return s - 6 if s <= 12 else 7
        return s + 7 if leap else s + 6

    def add_years(self, y, m, d, n):
        ty = y + n
        if not (self.min_year <= ty <= self.max_year):
            raise OutOfRange()
        if n == 0:
            return {(y, m, d)}
        if self.family == "hebrew":
            cal = self.cal
            s = self.hebrew_scriptural(y, m)
            if s == 13 and not cal.is_leap_year(ty):
                s = 12
            elif s == 12 and cal.is_leap_year(ty) and not cal.is_leap_year(y):
                s = 13
            td = d
            if d == 30 and s in (8, 9, 12):
                if self.dim(ty, self.hebrew_from_scriptural(ty, s)) != 30:
                    td = 1
                    s += 1
                    if s == 13:
                        s = 1
            return {(ty, self.hebrew_from_scriptural(ty, s), td)}
        return {(ty, m, min(d, self.dim(ty, m)))}


def greedy_time(total_ns: int, fields) -> dict:
    """largest-first truncating decomposition of total_ns into the given fixed-length fields (reference only)."""
    out = {}
    for f in ("weeks", "days", "hours", "minutes", "seconds", "milliseconds", "ticks", "nanoseconds"):
        if f in fields:
            q = trunc_div(total_ns, NS[f])
            out[f] = q
            total_ns -= q * NS[f]
    return out
