"""Field-projection model for pattern round trips (C07; C08 reuses the value alphabets and validity checks).

This is NOT a second formatter.  It answers three questions from a pattern's *field list* alone:

* project(spec, template, value)  -> the value obtained by keeping exactly the fields the pattern carries and taking
  every other field from the template (None when that combination is not a valid value).  A value v is
  *representable* by the pattern iff project(v) == v; project is idempotent, so project(anything) is representable
  by construction ("values constructed from the template by varying only the fields the pattern carries").
* eligible(props, spec, ...)     -> whether a culture satisfies the property's side conditions for the text fields
  of the pattern (pairwise-distinct month/day names, distinguishable am/pm designators, unambiguous era names).
* scan(kind, text)               -> the field list of an arbitrary custom pattern text (used for the cultures' own
  standard-pattern expansions) together with a "every numeric field is delimited or fixed-width" verdict.

Values are plain tuples of ints / strings here; to_lib / from_lib convert through the public API only.
  time      (h, m, s, ns)
  date      (calendar id, year, month, day)
  datetime  date + time
  instant   ('ISO', y, mo, d, h, mi, s, ns)   (UTC)
  annual    (month, day)
  offset    seconds
  duration  nanoseconds
"""
from __future__ import annotations

import re

NS_S = 10**9
NS_M = 60 * NS_S
NS_H = 3600 * NS_S
NS_D = 86400 * NS_S

TWO_ERA = ("ISO", "Gregorian", "Julian")


# ---------------------------------------------------------------------------------------------------------------
# specs
# ---------------------------------------------------------------------------------------------------------------

class Spec:
    """name -> token for the fields a pattern carries, plus derived facts."""

    def __init__(self, kind, fields, delim_after=None):
        self.kind = kind
        self.fields = tuple(fields)
        self.tok = dict(fields)
        self.names = frozenset(self.tok)
        self.delim_after = delim_after or {}      # field name -> first character of the literal that follows it
        fr = self.tok.get("frac")
        self.frac_digits = len(fr.lstrip(".;")) if fr else 0
        self.frac_trunc = bool(fr) and fr.lstrip(".;")[0] == "F"
        self.frac_own_sep = bool(fr) and fr[0] in ".;" and self.frac_trunc

    def has(self, *names):
        return all(n in self.names for n in names)

    def __repr__(self):
        return "Spec(%s,%r)" % (self.kind, self.fields)


# ---------------------------------------------------------------------------------------------------------------
# calendars (era arithmetic written out independently; month/day counts come from the public CalendarSystem API)
# ---------------------------------------------------------------------------------------------------------------

def era_family(cal_id: str) -> str:
    if cal_id in TWO_ERA:
        return "common"
    if cal_id.startswith("Hebrew"):
        return "mundi"
    if cal_id.startswith("Hijri") or cal_id == "Um Al Qura":
        return "hegirae"
    if cal_id.startswith("Persian"):
        return "persico"
    if cal_id == "Coptic":
        return "martyrum"
    if cal_id == "Badi":
        return "bahai"
    return "?" + cal_id


def era_of(cal_id: str, year: int) -> str:
    """Era identity as 'family/before' or 'family/main'."""
    fam = era_family(cal_id)
    if fam == "common" and year <= 0:
        return "common/before"
    return fam + "/main"


def yoe_of(cal_id: str, year: int) -> int:
    if era_family(cal_id) == "common" and year <= 0:
        return 1 - year
    return year


def abs_year(cal_id: str, yoe: int, era: str):
    """Absolute year for (year of era, era) or None when the calendar does not have that era."""
    fam = era_family(cal_id)
    if era == fam + "/main":
        return yoe
    if era == "common/before" and fam == "common":
        return 1 - yoe
    return None


class Cal:
    """Thin, cached view of one CalendarSystem through its public API."""
    _cache: dict = {}

    def __init__(self, cal_id):
        from pyoda_time import CalendarSystem
        self.id = cal_id
        self.sys = CalendarSystem.for_id(cal_id)
        self.min_year = self.sys.min_year
        self.max_year = self.sys.max_year
        self._miy = {}
        self._dim = {}

    @classmethod
    def get(cls, cal_id):
        c = cls._cache.get(cal_id)
        if c is None:
            c = cls._cache[cal_id] = Cal(cal_id)
        return c

    def months_in_year(self, y):
        r = self._miy.get(y)
        if r is None:
            r = self._miy[y] = self.sys.get_months_in_year(y)
        return r

    def days_in_month(self, y, m):
        r = self._dim.get((y, m))
        if r is None:
            r = self._dim[(y, m)] = self.sys.get_days_in_month(y, m)
        return r

    def valid(self, y, m, d):
        if not (self.min_year <= y <= self.max_year):
            return False
        if not (1 <= m <= self.months_in_year(y)):
            return False
        return 1 <= d <= self.days_in_month(y, m)


# ---------------------------------------------------------------------------------------------------------------
# projections
# ---------------------------------------------------------------------------------------------------------------

def project_time(spec: Spec, tmpl, v, ampm_carried=True):
    h, m, s, ns = v
    th, tm, ts, tns = tmpl
    ampm = "ampm" in spec.names and ampm_carried
    if "ampm" in spec.names and not ampm_carried:
        # a culture without any am/pm designator: the field is empty text and stands for the TEMPLATE's half day,
        # which the parsed hour must agree with
        base = h if ("H24" in spec.names or "h12" in spec.names) else th
        ph = base % 12 + 12 * (th // 12)
    elif "H24" in spec.names:
        ph = h
    elif "h12" in spec.names and ampm:
        ph = h
    elif "h12" in spec.names:
        ph = h % 12 + 12 * (th // 12)
    elif ampm:
        ph = th % 12 + 12 * (h // 12)
    else:
        ph = th
    pm = m if "min" in spec.names else tm
    ps = s if "sec" in spec.names else ts
    if "frac" in spec.names:
        unit = 10 ** (9 - spec.frac_digits)
        pns = ns - ns % unit
        if pns == 0 and spec.frac_own_sep:
            pns = tns      # an optional ".FFF" that formats to nothing is an absent field: the template's fraction
    else:
        pns = tns
    return (ph, pm, ps, pns)


def project_date(spec: Spec, tmpl, v, two_digit_year_max=30):
    cid, y, m, d = v
    tcid, ty, tm, td = tmpl
    pcid = cid if "cal" in spec.names else tcid
    cal = Cal.get(pcid)
    if "year" in spec.names:
        py = y
    elif "yoe" in spec.names:
        era = era_of(cid, y) if "era" in spec.names else era_of(tcid, ty)
        yoe = yoe_of(cid, y)
        if len(spec.tok["yoe"]) == 2:
            century = yoe_of(tcid, ty) // 100
            yy = yoe % 100
            if yy > two_digit_year_max and century > 1:
                century -= 1
            yoe = century * 100 + yy
        if yoe < 1:
            return None
        py = abs_year(pcid, yoe, era)
        if py is None:
            return None
    else:
        py = ty
    pm = m if ("mnum" in spec.names or "mtext" in spec.names) else tm
    pd = d if "day" in spec.names else td
    if not cal.valid(py, pm, pd):
        return None
    return (pcid, py, pm, pd)


def project_datetime(spec: Spec, tmpl, v, ampm_carried=True, tdy=30):
    d = project_date(spec, tmpl[:4], v[:4], tdy)
    if d is None:
        return None
    return d + project_time(spec, tmpl[4:], v[4:], ampm_carried)


def project_annual(spec: Spec, tmpl, v):
    m, d = v
    pm = m if ("mnum" in spec.names or "mtext" in spec.names) else tmpl[0]
    pd = d if "day" in spec.names else tmpl[1]
    if not (1 <= pm <= 12) or not (1 <= pd <= Cal.get("ISO").days_in_month(2000, pm)):
        return None
    return (pm, pd)


def project_offset(spec: Spec, v):
    a = abs(v)
    out = 0
    if "H" in spec.names:
        out += a // 3600 * 3600
    if "m" in spec.names:
        out += a // 60 % 60 * 60
    if "s" in spec.names:
        out += a % 60
    if v < 0 and "sign" in spec.names:
        out = -out
    return out


_DUR_UNIT = {"D": NS_D, "TH": NS_H, "TM": NS_M, "TS": NS_S}


def project_duration(spec: Spec, v):
    a = abs(v)
    out = 0
    for t, unit in _DUR_UNIT.items():
        if t in spec.names:
            out += a // unit * unit
    if "h" in spec.names:
        out += a // NS_H % 24 * NS_H
    if "m" in spec.names:
        out += a // NS_M % 60 * NS_M
    if "s" in spec.names:
        out += a // NS_S % 60 * NS_S
    if "frac" in spec.names:
        ns = a % NS_S
        unit = 10 ** (9 - spec.frac_digits)
        out += ns - ns % unit
    if v < 0 and "sign" in spec.names:
        out = -out
    return out


def project(spec: Spec, tmpl, v, ampm_carried=True, tdy=30):
    k = spec.kind
    if k == "time":
        return project_time(spec, tmpl, v, ampm_carried)
    if k == "date":
        return project_date(spec, tmpl, v, tdy)
    if k in ("datetime", "instant"):
        return project_datetime(spec, tmpl, v, ampm_carried, tdy)
    if k == "annual":
        return project_annual(spec, tmpl, v)
    if k == "offset":
        return project_offset(spec, v)
    if k == "duration":
        return project_duration(spec, v)
    raise AssertionError(k)


def may_format_empty(spec: Spec) -> bool:
    """Patterns whose whole output can legitimately be the empty string (only truncating fraction / am-pm fields)."""
    return spec.names <= {"frac", "ampm"} and (not spec.has("frac") or spec.frac_trunc)


# ---------------------------------------------------------------------------------------------------------------
# culture properties and side conditions
# ---------------------------------------------------------------------------------------------------------------

class Props:
    """Plain-data view of what a culture contributes to text fields."""

    def __init__(self):
        self.name = ""
        self.date_sep = "/"
        self.time_sep = ":"
        self.am = ""
        self.pm = ""
        self.months = {}      # (width 3|4, genitive bool) -> list indexed 1..13 (0 unused)
        self.days = {}        # width 3|4 -> list indexed 1..7
        self.eras = {}        # era identity -> (primary name, [names in matching order])
        self.patterns = {}    # DateTimeFormatInfo pattern strings
        self.degraded = []


_ERA_ATTR = {"common/main": "common", "common/before": "before_common", "mundi/main": "anno_mundi", "hegirae/main": "anno_hegirae",
             "persico/main": "anno_persico", "martyrum/main": "anno_martyrum", "bahai/main": "bahai"}


def culture_props(culture) -> Props:
    p = Props()
    p.name = culture.name
    dtf = culture.date_time_format
    fi = None
    try:
        from pyoda_time.globalization._pyoda_format_info import _PyodaFormatInfo
        fi = _PyodaFormatInfo._get_format_info(culture)
    except Exception:  # noqa: BLE001  private API drift
        p.degraded.append("_PyodaFormatInfo unreachable: names read from DateTimeFormatInfo")
    p.date_sep = dtf.date_separator
    p.time_sep = dtf.time_separator
    p.am = dtf.am_designator or ""
    p.pm = dtf.pm_designator or ""
    if fi is not None:
        p.months[(4, False)] = list(fi.long_month_names)
        p.months[(3, False)] = list(fi.short_month_names)
        p.months[(4, True)] = list(fi.long_month_genitive_names)
        p.months[(3, True)] = list(fi.short_month_genitive_names)
        p.days[4] = list(fi.long_day_names)
        p.days[3] = list(fi.short_day_names)
    else:
        p.months[(4, False)] = [""] + list(dtf.month_names)
        p.months[(3, False)] = [""] + list(dtf.abbreviated_month_names)
        p.months[(4, True)] = [""] + list(dtf.month_genitive_names)
        p.months[(3, True)] = [""] + list(dtf.abbreviated_month_genitive_names)
        dn, an = list(dtf.day_names), list(dtf.abbreviated_day_names)
        p.days[4] = [""] + dn[1:] + dn[:1]
        p.days[3] = [""] + an[1:] + an[:1]
    try:
        from pyoda_time.calendars import Era
        for ident, attr in _ERA_ATTR.items():
            era = getattr(Era, attr)
            p.eras[ident] = (fi.get_era_primary_name(era), list(fi.get_era_names(era)))
    except Exception:  # noqa: BLE001
        p.eras = {}
        p.degraded.append("era names unreachable: 'g' fields excluded from exact-recovery checks")
    for attr in ("short_date_pattern", "long_date_pattern", "month_day_pattern", "short_time_pattern", "long_time_pattern",
                 "full_date_time_pattern"):
        try:
            p.patterns[attr] = getattr(dtf, attr)
        except Exception:  # noqa: BLE001
            pass
    return p


def _ci(s):
    return (s.lower(), s.casefold())


def _same_ci(a, b):
    return a.lower() == b.lower() or a.casefold() == b.casefold()


def _prefix_ci(short, long_):
    return long_.lower().startswith(short.lower()) or long_.casefold().startswith(short.casefold())


def names_distinct(lists, upto, follow=""):
    """True when, over indices 1..upto, every index has a non-empty name in lists[0] (the list used to format) and
    no candidate name of one index equals (ignoring case) - or extends by `follow` - a name of another index."""
    fmt = lists[0]
    if len(fmt) <= upto:
        return False
    cands = {}
    for i in range(1, max(len(l) for l in lists)):
        cands[i] = [l[i] for l in lists if i < len(l) and l[i]]
    for i in range(1, upto + 1):
        if not fmt[i]:
            return False
        for j, cj in cands.items():
            for c in cj:
                if j != i and _same_ci(c, fmt[i]):
                    return False
                # a longer candidate (of any index, e.g. the genitive form "Jan." of "Jan") that also swallows the
                # start of the following literal would be preferred by longest-match parsing
                if follow and len(c) > len(fmt[i]) and _prefix_ci(fmt[i] + follow, c):
                    return False
    return True


def ampm_shape(p: Props) -> str:
    if not p.am and not p.pm:
        return "empty"
    if not p.am or not p.pm:
        return "half"
    if _same_ci(p.am, p.pm):
        return "same"
    if _same_ci(p.am[0], p.pm[0]):
        return "same1"
    return "ok"


def month_lists(p: Props, width: int, genitive: bool):
    """(list used to format, other list matched when parsing)"""
    a, b = p.months[(width, genitive)], p.months[(width, not genitive)]
    return (a, b) if a != b else (a,)


def era_ok(p: Props, cal_id: str, era: str) -> bool:
    """The primary name of `era` is what an in-order, first-prefix-match scan over the calendar's era names finds."""
    if not p.eras:
        return False
    order = ["common/before", "common/main"] if era_family(cal_id) == "common" else [era_family(cal_id) + "/main"]
    if era not in order or era not in p.eras:
        return False
    primary = p.eras[era][0]
    if not primary:
        return False
    for e in order:
        for nm in p.eras.get(e, ("", []))[1]:
            if nm and _prefix_ci(nm, primary):
                return e == era and len(nm) == len(primary)
    return False


def exclusion(p: Props, spec: Spec, value, delim_style: str = ""):
    """None when the culture satisfies the side conditions for exact recovery of `value` (already projected) with
    this pattern; otherwise the label of the exclusion class."""
    k = spec.kind
    names = spec.names
    if "mtext" in names:
        width = len(spec.tok["mtext"])
        month = value[0] if k == "annual" else value[2]
        if month > 12:
            return "month-13-has-no-name"
        genitive = "day" in names
        if not names_distinct(month_lists(p, width, genitive), 12, spec.delim_after.get("mtext", "")):
            return "month-names-not-distinct"
    if "dow" in names:
        width = len(spec.tok["dow"])
        if not names_distinct((p.days[width],), 7, spec.delim_after.get("dow", "")):
            return "day-names-not-distinct"
    if "ampm" in names:
        sh = ampm_shape(p)
        if sh == "same":
            return "ampm-same"
        if sh == "half" and spec.delim_after.get("ampm", "") and _prefix_ci(spec.delim_after["ampm"], (p.am or p.pm)):
            return "ampm-half-designator-starts-like-the-following-literal"
        # 'empty' (the field carries nothing: the template's half day) and 'half' are modelled by the projection
        if sh == "same1" and len(spec.tok["ampm"]) == 1:
            return "ampm-same-first-letter"
    if "era" in names:
        cid, y = value[0], value[1]
        if not era_ok(p, cid, era_of(cid, y)):
            return "era-names-ambiguous"
    if "frac" in names and spec.frac_trunc and not spec.frac_own_sep and spec.delim_after.get("<frac", "") == ".":
        # documented quirk: a truncating fraction that formats to nothing also removes a '.' right before it
        ns = value if k == "duration" else value[-1]
        if (abs(ns) % NS_S if k == "duration" else ns) == 0:
            return "F-removes-preceding-dot"
    if "frac" in names and spec.frac_own_sep and spec.delim_after.get("frac", "") in (".", ",")[: 2 if spec.tok["frac"][0] == ";" else 1]:
        # an optional '.fraction' that formats to nothing, followed by a literal starting with '.', is ambiguous by design
        ns = value if k == "duration" else value[-1]
        if (abs(ns) % NS_S if k == "duration" else ns) == 0:
            return "optional-fraction-before-dot"
    if (k in ("date", "annual") or "mnum" in names or "day" in names or "year" in names) and not p.date_sep and delim_style == "sep":
        return "empty-separator"
    if not p.time_sep and delim_style == "sep":
        return "empty-separator"
    return None


def class_key(p: Props):
    """The partition of cultures used to pick representatives for generated custom patterns."""
    gen = p.months[(4, True)] != p.months[(4, False)] or p.months[(3, True)] != p.months[(3, False)]
    digits = any(n and (n[0].isdigit() or n[-1].isdigit()) for k in p.months for n in p.months[k]) or \
        any(n and (n[0].isdigit() or n[-1].isdigit()) for k in p.days for n in p.days[k])
    m_ok = tuple(names_distinct(month_lists(p, w, g), 12) for w in (3, 4) for g in (False, True))
    d_ok = tuple(names_distinct((p.days[w],), 7) for w in (3, 4))
    e_ok = era_ok(p, "ISO", "common/main") and era_ok(p, "ISO", "common/before")
    return (p.date_sep, p.time_sep, ampm_shape(p), gen, digits, m_ok, d_ok, e_ok)


def relevant_class_components(pattern_text: str, names) -> tuple:
    """Indices of class_key components a pattern with these fields / this text can depend on."""
    idx = set()
    bare = re.sub(r"'[^']*'|\"[^\"]*\"|\\.", "", pattern_text)
    if "/" in bare:
        idx.add(0)
    if ":" in bare:
        idx.add(1)
    if "ampm" in names:
        idx.add(2)
    if "mtext" in names:
        idx.update((3, 4, 5))
    if "dow" in names:
        idx.update((4, 6))
    if "era" in names:
        idx.add(7)
    return tuple(sorted(idx))


# ---------------------------------------------------------------------------------------------------------------
# scanning arbitrary custom pattern texts (for culture-supplied standard-pattern expansions)
# ---------------------------------------------------------------------------------------------------------------

_LETTERS = {
    "date": {"y": "yoe", "u": "year", "M": "m?", "d": "d?", "c": "cal", "g": "era"},
    "time": {"h": "h12", "H": "H24", "m": "min", "s": "sec", "f": "frac", "F": "frac", "t": "ampm"},
    "offset": {"H": "H", "m": "m", "s": "s"},
    "duration": {"D": "D", "H": "TH", "h": "h", "M": "TM", "m": "m", "S": "TS", "s": "s", "f": "frac", "F": "frac"},
    "annual": {"M": "m?", "d": "d?"},
}
_LETTERS["datetime"] = dict(_LETTERS["date"], **_LETTERS["time"])
_LETTERS["instant"] = _LETTERS["datetime"]
_MAXDIG = {"yoe": 4, "year": 4, "mnum": 2, "day": 2, "h12": 2, "H24": 2, "min": 2, "sec": 2, "H": 2, "m": 2, "s": 2,
           "h": 2, "D": 10, "TH": 14, "TM": 14, "TS": 14}


def scan(kind: str, text: str, p: Props | None = None):
    """(Spec, safe) for a custom pattern text, or (None, False) when the text uses anything this scanner does not
    model (embedded patterns, repeated fields, unknown letters).  `safe` = every numeric field is fixed-width or
    followed by a literal that does not start with a digit / sign, text fields are followed by a literal or the end,
    and no truncating fraction directly follows a literal '.'."""
    letters = _LETTERS[kind]
    items = []          # ("F", name, token) | ("L", text)
    i, n = 0, len(text)
    if n == 0 or (n == 1):
        return None, False
    while i < n:
        ch = text[i]
        if ch == "%":
            i += 1
            continue
        if ch in "'\"":
            j = i + 1
            buf = []
            while j < n and text[j] != ch:
                if text[j] == "\\":
                    j += 1
                    if j >= n:
                        return None, False
                buf.append(text[j])
                j += 1
            if j >= n:
                return None, False
            items.append(("L", "".join(buf)))
            i = j + 1
            continue
        if ch == "\\":
            if i + 1 >= n:
                return None, False
            items.append(("L", text[i + 1]))
            i += 2
            continue
        if ch in ".;" and kind in ("time", "datetime", "instant", "duration") and i + 1 < n and text[i + 1] == "F":
            if ch == ";" and kind == "duration":
                return None, False
            j = i + 1
            while j < n and text[j] == "F":
                j += 1
            items.append(("F", "frac", text[i:j]))
            i = j
            continue
        if ch == ";" and kind in ("time", "datetime", "instant"):
            items.append(("L", "."))
            i += 1
            continue
        if ch in "+-" and kind in ("offset", "duration"):
            items.append(("F", "sign", ch))
            i += 1
            continue
        if ch == ":" and kind != "date" and kind != "annual":
            items.append(("L", p.time_sep if p else ":"))
            i += 1
            continue
        if ch == "/" and kind in ("date", "datetime", "instant", "annual"):
            items.append(("L", p.date_sep if p else "/"))
            i += 1
            continue
        if ch == "T" and kind in ("datetime", "instant"):
            items.append(("L", "T"))
            i += 1
            continue
        if ch.isascii() and ch.isalpha() or ch in "<>":
            nm = letters.get(ch)
            if nm is None:
                return None, False
            j = i
            while j < n and text[j] == ch:
                j += 1
            cnt = j - i
            if nm == "m?":
                nm = "mnum" if cnt <= 2 else "mtext"
            elif nm == "d?":
                nm = "day" if cnt <= 2 else "dow"
            if nm in ("mtext", "dow") and cnt > 4 or nm == "yoe" and cnt not in (2, 4) or nm in ("era", "ampm") and cnt > 2 \
                    or nm == "cal" and cnt > 1 or nm == "frac" and cnt > 9 or nm in _MAXDIG and cnt > _MAXDIG[nm]:
                return None, False
            if kind == "annual" and nm == "dow":
                return None, False
            items.append(("F", nm, text[i:j]))
            i = j
            continue
        items.append(("L", ch))
        i += 1
    fields = [(it[1], it[2]) for it in items if it[0] == "F"]
    if len({f[0] for f in fields}) != len(fields) or not fields:
        return None, False
    # merge adjacent literals
    merged = []
    for it in items:
        if it[0] == "L" and merged and merged[-1][0] == "L":
            merged[-1] = ("L", merged[-1][1] + it[1])
        else:
            merged.append(it)
    delim_after = {}
    safe = True
    for idx, it in enumerate(merged):
        if it[0] != "F":
            continue
        nm, tok = it[1], it[2]
        nxt = merged[idx + 1] if idx + 1 < len(merged) else None
        prv = merged[idx - 1] if idx > 0 else None
        lit = nxt[1] if nxt and nxt[0] == "L" else None
        if lit:
            delim_after[nm] = lit[0]
        if nm == "frac":
            if prv and prv[0] == "L" and prv[1].endswith("."):
                delim_after["<frac"] = "."
            core = tok.lstrip(".;")
            variable = core[0] == "F"
            if variable and nxt is not None and (lit is None or lit[0].isdigit()):
                safe = False
            if not variable and nxt is not None and lit is None and len(core) < 9 and nxt[1] in _MAXDIG:
                pass   # fixed-width digits followed by another numeric field: still unambiguous
            if prv is not None and prv[0] == "F" and prv[1] in _MAXDIG and len(prv[2]) < _MAXDIG[prv[1]]:
                safe = False
            continue
        if nm in _MAXDIG:
            fixed = len(tok) == _MAXDIG[nm]
            if nm in ("D", "TH", "TM", "TS"):
                fixed = False
            if not fixed and nxt is not None:
                if lit is None:
                    if nxt[1] in _MAXDIG or nxt[1] == "frac" and not nxt[2][0] in ".;":
                        safe = False
                    elif nxt[1] in ("mtext", "dow", "ampm", "era", "cal"):
                        safe = False    # conservatively: names may start with a digit
                elif lit[0].isdigit():
                    safe = False
            if nm == "year" and prv is not None and prv[0] == "F":
                safe = False            # a '-' of a negative year would directly follow another field
        elif nm in ("mtext", "dow", "ampm", "era", "cal"):
            if nxt is not None and lit is None:
                safe = False
    spec = Spec(kind, fields, delim_after)
    if not wellformed_spec(spec):
        return None, False
    return spec, safe


def wellformed_spec(spec: Spec) -> bool:
    from vf.core.grammar import wellformed
    return wellformed(spec.kind, [f[0] for f in spec.fields])


def spec_of_pat(pat, p: Props | None = None) -> Spec:
    """Spec of a grammar.Pat (fields known by construction); the delimiter context is taken from the style."""
    from vf.core.grammar import delim_text
    delim_after = {}
    names = [f[0] for f in pat.fields]
    kind = pat.kind
    if pat.delim in ("q", "dq", "esc", "sp", "sep"):
        for a, b in zip(names, names[1:]):
            t = delim_text(kind, pat.delim, a, b)
            ch = {"'~'": "~", '"~"': "~", "\\~": "~", " ": " "}.get(t)
            if ch is None:
                sep = (p.date_sep if t == "/" else p.time_sep) if p else t
                ch = sep[:1]
                if b == "frac" and sep.endswith("."):
                    delim_after["<frac"] = "."
            delim_after[a] = ch
    return Spec(kind, pat.fields, delim_after)


# ---------------------------------------------------------------------------------------------------------------
# value alphabets (boundary values per type) - plain tuples
# ---------------------------------------------------------------------------------------------------------------

TIME_VALUES = (
    (0, 0, 0, 0), (12, 0, 0, 0), (23, 59, 59, 999_999_999), (1, 2, 3, 0), (11, 59, 59, 0), (13, 5, 0, 0),
    (7, 8, 9, 123_456_789), (7, 8, 9, 120_000_000), (0, 0, 0, 1), (12, 34, 56, 500_000_000), (10, 10, 10, 1000),
    (23, 0, 0, 100_000_000), (0, 59, 0, 999_000_000), (12, 0, 1, 1_000_000),
)

ISO_DATES = (
    (2000, 1, 1), (2024, 2, 29), (1999, 12, 31), (1, 1, 1), (9999, 12, 31), (-9998, 1, 1), (-1, 5, 7), (0, 12, 31),
    (2023, 9, 30), (1931, 6, 15), (2030, 12, 1), (2031, 1, 31), (1930, 3, 2), (1900, 2, 28), (10, 10, 10), (2000, 12, 31),
    (1970, 1, 1), (2011, 11, 9), (2045, 6, 1),
)


_CURRENT_YEAR = {"mundi": 5784, "hegirae": 1445, "persico": 1402, "martyrum": 1740, "bahai": 180, "common": 2024}


def date_values(cal_ids, per_cal_only=False, rich=False):
    """Boundary dates: the ISO alphabet plus, for every requested calendar, the first and last day of its range, and
    in year 2000 (the default template's year number, when valid) and in a present-day year: the first day, the last
    day of the last month (leap months included) and the last day of month 2."""
    out = []
    if not per_cal_only:
        out += [("ISO",) + d for d in ISO_DATES]
    for cid in cal_ids:
        cal = Cal.get(cid)
        ys = [cal.min_year, cal.max_year, 2000, _CURRENT_YEAR.get(era_family(cid), 2000)]
        if rich:
            ys += [cal.min_year + 1, cal.max_year - 1, _CURRENT_YEAR.get(era_family(cid), 2000) + 3]
        seen = set()
        for y in ys:
            if not (cal.min_year <= y <= cal.max_year) or y in seen:
                continue
            seen.add(y)
            mmax = cal.months_in_year(y)
            if y == cal.min_year:
                cands = [(y, 1, 1)]
            elif y == cal.max_year:
                cands = [(y, mmax, cal.days_in_month(y, mmax))]
            else:
                cands = [(y, 1, 1), (y, mmax, cal.days_in_month(y, mmax)), (y, 2, cal.days_in_month(y, 2))]
                if rich:
                    cands.append((y, min(7, mmax), 15))
            for c in cands:
                t = (cid,) + c
                if t not in out:
                    out.append(t)
    return out


OFFSET_VALUES = (0, 1, -1, 59, 60, -60, 3599, 3600, -3600, 19800, -12600, 45296, -3723, 64800, -64800, 64799, -64799, 36000, 600)

DURATION_MAX = (2**30) * NS_D - 1
DURATION_MIN = -(2**30) * NS_D
DURATION_VALUES = (
    0, 1, -1, NS_S, -NS_S, NS_D, -NS_D, NS_D - 1, -NS_D - 1, -NS_D + 1, 25 * NS_H, -25 * NS_H, 1_500_000_000, -1_500_000_000,
    NS_H + 30 * NS_M + 5 * NS_S + 500_000_000, 123_456_789, -999_999_999, 10 * NS_D + 23 * NS_H + 59 * NS_M + 59 * NS_S + 999_999_999,
    59 * NS_M + 59 * NS_S, 24 * NS_H - 1, 100 * NS_D, DURATION_MAX, DURATION_MIN, DURATION_MAX - NS_D, DURATION_MIN + 1,
    120_000_000, 999 * NS_H + 1000,
)

ANNUAL_VALUES = ((1, 1), (2, 29), (2, 28), (12, 31), (6, 15), (10, 10), (11, 30), (3, 1), (7, 31), (9, 9))


def pivot_dates(cid):
    """Dates on both sides of the two-digit-year pivots (30 / 79 / 80) in the calendar's present century and the one
    before - for configurations that change the two-digit-year maximum."""
    cal = Cal.get(cid)
    century = _CURRENT_YEAR.get(era_family(cid), 2000) // 100 * 100
    return [(cid, y, 1, 1) for y in (century + 31, century + 45, century + 81, century - 100 + 45, century - 100 + 81) if cal.min_year <= y <= cal.max_year]


def datetime_values(dates, times=None):
    """Boundary date-times: every date at midnight plus the time alphabet on a few dates (first, last, leap day)."""
    times = times or TIME_VALUES
    out = []
    for d in dates:
        out.append(d + times[0])
    for d in (dates[:2] + [x for x in dates if x[1:] in ((9999, 12, 31), (-9998, 1, 1))]):
        for t in times[1:]:
            out.append(d + t)
    return out


# ---------------------------------------------------------------------------------------------------------------
# conversion to / from library values (public API only) and validity of parsed values (C08)
# ---------------------------------------------------------------------------------------------------------------

def to_lib(kind, v):
    import pyoda_time as pt
    if kind == "time":
        return pt.LocalTime.from_hour_minute_second_nanosecond(*v)
    if kind == "date":
        return pt.LocalDate(v[1], v[2], v[3], Cal.get(v[0]).sys)
    if kind == "datetime":
        return pt.LocalDate(v[1], v[2], v[3], Cal.get(v[0]).sys) + pt.LocalTime.from_hour_minute_second_nanosecond(*v[4:])
    if kind == "instant":
        return pt.Instant.from_utc(v[1], v[2], v[3], v[4], v[5], v[6]).plus_nanoseconds(v[7])
    if kind == "annual":
        return pt.AnnualDate(v[0], v[1])
    if kind == "offset":
        return pt.Offset.from_seconds(v)
    if kind == "duration":
        return pt.Duration.from_nanoseconds(v)
    raise AssertionError(kind)


def from_lib(kind, x):
    if kind == "time":
        return (x.hour, x.minute, x.second, x.nanosecond_of_second)
    if kind == "date":
        return (x.calendar.id, x.year, x.month, x.day)
    if kind == "datetime":
        return (x.calendar.id, x.year, x.month, x.day, x.hour, x.minute, x.second, x.nanosecond_of_second)
    if kind == "instant":
        l = x.in_utc().local_date_time
        return ("ISO", l.year, l.month, l.day, l.hour, l.minute, l.second, l.nanosecond_of_second)
    if kind == "annual":
        return (x.month, x.day)
    if kind == "offset":
        return x.seconds
    if kind == "duration":
        return x.to_nanoseconds()
    raise AssertionError(kind)


def validity_problem(kind, x):
    """None when x is a valid value of its type: inside the range and equal to the value rebuilt from its own
    components through the public constructors.  Otherwise (stable code, detail)."""
    import pyoda_time as pt
    try:
        if kind in ("date", "datetime"):
            cal = x.calendar
            y, m, d = x.year, x.month, x.day
            if not (cal.min_year <= y <= cal.max_year):
                return ("year-outside-calendar-range", "year %d outside %s range %d..%d" % (y, cal.id, cal.min_year, cal.max_year))
            if not (1 <= m <= cal.get_months_in_year(y)) or not (1 <= d <= cal.get_days_in_month(y, m)):
                return ("month-or-day-invalid", "month/day %d/%d invalid in year %d of %s" % (m, d, y, cal.id))
            rebuilt = pt.LocalDate(y, m, d, cal)
            if kind == "date":
                return None if rebuilt == x else ("not-rebuildable", "not equal to the date rebuilt from its components")
            nod = x.nanosecond_of_day
            if not (0 <= nod < NS_D):
                return ("time-of-day-out-of-range", "nanosecond_of_day %d" % nod)
            rebuilt = rebuilt + pt.LocalTime.from_hour_minute_second_nanosecond(x.hour, x.minute, x.second, x.nanosecond_of_second)
            return None if rebuilt == x else ("not-rebuildable", "not equal to the date-time rebuilt from its components")
        if kind == "time":
            nod = x.nanosecond_of_day
            if not (0 <= nod < NS_D):
                return ("time-of-day-out-of-range", "nanosecond_of_day %d" % nod)
            r = pt.LocalTime.from_hour_minute_second_nanosecond(x.hour, x.minute, x.second, x.nanosecond_of_second)
            return None if r == x else ("not-rebuildable", "not equal to the time rebuilt from its components")
        if kind == "offset":
            sec = x.seconds
            if not (-64800 <= sec <= 64800):
                return ("offset-outside-18h", "offset %d s" % sec)
            return None if pt.Offset.from_seconds(sec) == x else ("not-rebuildable", "not equal to the offset rebuilt from its seconds")
        if kind == "duration":
            n = x.to_nanoseconds()
            if not (DURATION_MIN <= n <= DURATION_MAX) or not (pt.Duration.min_value <= x <= pt.Duration.max_value):
                return ("duration-out-of-range", "duration %d ns" % n)
            return None if pt.Duration.from_nanoseconds(n) == x else ("not-rebuildable", "not equal to the duration rebuilt from its nanoseconds")
        if kind == "instant":
            if not (pt.Instant.min_value <= x <= pt.Instant.max_value):
                return ("instant-out-of-range", "instant outside min_value..max_value")
            back = pt.Instant.from_unix_time_ticks(0).plus_nanoseconds((x - pt.Instant.from_unix_time_ticks(0)).to_nanoseconds())
            return None if back == x else ("not-rebuildable", "not equal to the instant rebuilt from its distance to the epoch")
        if kind == "annual":
            r = pt.AnnualDate(x.month, x.day)
            return None if r == x else ("not-rebuildable", "not equal to the annual date rebuilt from its components")
    except Exception as e:  # noqa: BLE001
        return ("components-unreadable", "components cannot be read back / rebuilt: %s: %s" % (type(e).__name__, str(e)[:120]))
    raise AssertionError(kind)
