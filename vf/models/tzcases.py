"""Aware datetimes whose tzinfo has a DATE-DEPENDENT utc offset (stdlib only; the stdlib's own dt.utcoffset() - fold included -
is the reference for what such a datetime denotes).

zone_cases():  zoneinfo.ZoneInfo zones x wall times around every offset transition of a few years, both folds
               (inside overlaps = repeated wall times, inside gaps, just outside either, +/-1 us at the edges)
custom tzinfo: a user-defined tzinfo subclass whose offset depends on the month and on fold
"""
from __future__ import annotations

import datetime as dt

ZONES = ("America/New_York", "Europe/London", "Australia/Lord_Howe", "Pacific/Apia", "America/Sao_Paulo", "Asia/Kolkata")
YEARS = (2010, 2011, 2018, 2024)
UTC = dt.timezone.utc
US = dt.timedelta(microseconds=1)


class MonthFoldTz(dt.tzinfo):
    """+01:00 from January to June, +02:30 from July on, and 30 minutes less when fold == 1 (date- and fold-dependent)"""

    def utcoffset(self, d):
        base = dt.timedelta(hours=1) if d.month < 7 else dt.timedelta(hours=2, minutes=30)
        return base - (dt.timedelta(minutes=30) if d.fold else dt.timedelta(0))

    def dst(self, d):
        return dt.timedelta(0)

    def tzname(self, d):
        return "MonthFold"

    def __repr__(self):
        return "MonthFoldTz()"


CUSTOM = MonthFoldTz()


def get_zone(name):
    try:
        import zoneinfo
        return zoneinfo.ZoneInfo(name)
    except Exception:  # noqa: BLE001  (no tz database on this machine: the caller reports the gap)
        return None


def transitions(tz, year):
    """UTC instants in `year` at which the zone's utc offset changes (found by an hourly scan refined to the second)"""
    out = []
    t = dt.datetime(year, 1, 1, tzinfo=UTC)
    end = dt.datetime(year + 1, 1, 1, tzinfo=UTC)
    step = dt.timedelta(hours=1)
    prev = t.astimezone(tz).utcoffset()
    while t < end:
        n = t + step
        cur = n.astimezone(tz).utcoffset()
        if cur != prev:
            lo, hi = t, n
            while hi - lo > dt.timedelta(seconds=1):
                mid = lo + (hi - lo) // 2
                mid = mid.replace(microsecond=0)
                if mid <= lo:
                    break
                if mid.astimezone(tz).utcoffset() == prev:
                    lo = mid
                else:
                    hi = mid
            out.append((hi, prev, cur))
            prev = cur
        t = n
    return out


def zone_cases(zones=ZONES, years=YEARS):
    """list of (zone name, aware datetime) - wall times around every transition, fold 0 and 1; plus plain mid-season values"""
    out = []
    missing = []
    for name in zones:
        tz = get_zone(name)
        if tz is None:
            missing.append(name)
            continue
        for y in years:
            for (t, old, new) in transitions(tz, y):
                wall0 = (t + old).replace(tzinfo=None)          # wall clock reading at the transition under the old offset
                width = abs(new - old)
                for d in (-width - US, -width, -width + US, -width / 2, -US, dt.timedelta(0), US, width / 2, width - US, width, width + US,
                          dt.timedelta(hours=3), -dt.timedelta(hours=3)):
                    w = wall0 + d
                    for fold in (0, 1):
                        out.append((name, w.replace(tzinfo=tz, fold=fold)))
            for (mo, day) in ((1, 15), (7, 15)):
                out.append((name, dt.datetime(y, mo, day, 12, 0, 0, 1, tzinfo=tz)))
    return out, missing


def custom_cases():
    out = []
    for (y, mo, d) in ((2024, 1, 1), (2024, 6, 30), (2024, 7, 1), (2024, 12, 31), (1, 1, 2), (9999, 12, 30)):
        for (h, mi, s, us) in ((0, 0, 0, 0), (23, 59, 59, 999_999), (12, 0, 0, 1)):
            for fold in (0, 1):
                out.append(("MonthFoldTz", dt.datetime(y, mo, d, h, mi, s, us, tzinfo=CUSTOM, fold=fold)))
    return out


def exact_instant_us(a):
    """microseconds since 1970-01-01T00:00Z denoted by the aware datetime a, by the stdlib's own utcoffset() for THAT datetime"""
    off = a.utcoffset()
    loc = a.replace(tzinfo=None) - dt.datetime(1970, 1, 1)
    return (loc - off) // US


def shared_tzinfo_groups(zones=ZONES):
    """groups of datetimes that share ONE tzinfo object but have different utc offsets (winter / summer / the second pass of an overlap)"""
    groups = []
    for name in zones:
        tz = get_zone(name)
        if tz is None:
            continue
        for y in (2010, 2024):
            g = [dt.datetime(y, 1, 15, 12, tzinfo=tz), dt.datetime(y, 7, 15, 12, tzinfo=tz)]
            for (t, old, new) in transitions(tz, y):
                if new < old:       # overlap: the same wall time twice
                    w = (t + new).replace(tzinfo=None) + (old - new) / 2
                    g.append(w.replace(tzinfo=tz, fold=0))
                    g.append(w.replace(tzinfo=tz, fold=1))
                    break
            if len({x.utcoffset() for x in g}) > 1:
                groups.append((name, g))
    g = [dt.datetime(2024, 3, 1, 8, tzinfo=CUSTOM), dt.datetime(2024, 9, 1, 8, tzinfo=CUSTOM), dt.datetime(2024, 9, 1, 8, tzinfo=CUSTOM, fold=1)]
    groups.append(("MonthFoldTz", g))
    return groups
