"""Shared helpers for the time-zone checks (C04, C05, C06): walking a real zone as a chain of interval states.

Everything here drives the REAL pyoda_time objects; the only model-side knowledge used is *where to walk*
(the window plan is derived from the independently decoded .nzd bytes, see nzdref / tzrules).

Plain-int conventions: an instant is ns since 1970-01-01T00:00Z; an interval tuple is
(start | None, end | None, name, wall seconds, savings seconds); None = start / end of time.
"""
from __future__ import annotations

import bisect
import io
import os

from pyoda_time import DateTimeZoneProviders, Instant, LocalDate, LocalTime

from . import nzdref, tzrules
from .nzdref import DAY_NS, NS
from .tzrules import MAX_NS, MIN_NS, civil_from_days, days_from_civil

_EPOCH = Instant.from_unix_time_ticks(0)


# ---- Instant <-> int ---------------------------------------------------------------------------

def _ins_ns_public(i):
    return (i - _EPOCH).to_nanoseconds()


def _ins_ns_private(i):
    return i._days_since_epoch * DAY_NS + i._nanosecond_of_day


def _mk_public(ns):
    t, r = divmod(ns, 100)
    i = Instant.from_unix_time_ticks(t)
    return i.plus_nanoseconds(r) if r else i


def _mk_private(ns):
    d, n = divmod(ns, DAY_NS)
    return Instant._ctor(days=d, nano_of_day=n)


DEGRADED = []


def _select():
    """use the fast private paths only when they agree with the public ones on a fixed probe set"""
    probes = [0, 1, -1, DAY_NS, -DAY_NS - 1, MIN_NS, MAX_NS, 1_616_893_200 * NS + 999_999_999, -5_364_662_400 * NS + 7]
    ins, mk = _ins_ns_public, _mk_public
    try:
        if all(_ins_ns_private(_mk_public(p)) == p for p in probes):
            ins = _ins_ns_private
        else:
            DEGRADED.append("Instant private day/nanosecond accessors disagree with the public path; public path used")
    except Exception:  # noqa: BLE001
        DEGRADED.append("Instant private day/nanosecond accessors unavailable; public path used")
    try:
        if all(_ins_ns_public(_mk_private(p)) == p and _mk_private(p) == _mk_public(p) for p in probes):
            mk = _mk_private
        else:
            DEGRADED.append("Instant._ctor disagrees with the public constructors; public path used")
    except Exception:  # noqa: BLE001
        DEGRADED.append("Instant._ctor unavailable; public path used")
    return ins, mk


ins_ns, mk_instant = _select()
if _ins_ns_public(Instant.min_value) != MIN_NS or _ins_ns_public(Instant.max_value) != MAX_NS:  # pragma: no cover
    DEGRADED.append("Instant.min_value/max_value differ from the model's range ends")


def iv_tuple(zi):
    """ZoneInterval -> plain tuple through the public accessors"""
    return (ins_ns(zi.start) if zi.has_start else None, ins_ns(zi.end) if zi.has_end else None,
            zi.name, zi.wall_offset.seconds, zi.savings.seconds)


def fmt_ns(ns):
    if ns is None:
        return "inf"
    d, n = divmod(ns, DAY_NS)
    y, m, dd = civil_from_days(d)
    s, f = divmod(n, NS)
    return "%04d-%02d-%02dT%02d:%02d:%02d%sZ" % (y, m, dd, s // 3600, s // 60 % 60, s % 60, (".%09d" % f) if f else "")


def fmt_iv(t):
    return "%s[%s,%s) wall=%+ds sav=%+ds" % (t[2], fmt_ns(t[0]), fmt_ns(t[1]), t[3], t[4])


def year_start_ns(y):
    return days_from_civil(y, 1, 1) * DAY_NS


# ---- local date-times -----------------------------------------------------------------------------

LOCAL_MIN_NS = MIN_NS
LOCAL_MAX_NS = MAX_NS


def ldt_from_local_ns(n):
    """ISO LocalDateTime for a local nanosecond count (public constructors; the civil date comes from the model)"""
    d, nod = divmod(n, DAY_NS)
    y, m, dd = civil_from_days(d)
    return LocalDate(y, m, dd) + LocalTime.from_nanoseconds_since_midnight(nod)


def local_date_from_days(d):
    y, m, dd = civil_from_days(d)
    return LocalDate(y, m, dd)


def ldt_local_ns(ldt):
    """local nanoseconds of an ISO-convertible LocalDateTime through public accessors"""
    d = ldt.date
    iso = d if d.calendar.id == "ISO" else d.with_calendar(_iso())
    return days_from_civil(iso.year, iso.month, iso.day) * DAY_NS + ldt.time_of_day.nanosecond_of_day


def _iso():
    from pyoda_time import CalendarSystem
    return CalendarSystem.iso


# ---- the bundled file and its decoded form ------------------------------------------------------

_FILES = {}


def bundled_path():
    import pyoda_time.time_zones as tzpkg
    return os.path.join(os.path.dirname(tzpkg.__file__), "Tzdb.nzd")


def second_path():
    import pyoda_time
    root = os.path.dirname(os.path.dirname(os.path.abspath(pyoda_time.__file__)))
    p = os.path.join(root, "tests", "test_data", "Tzdb2013bFromNodaTime1.1.nzd")
    return p if os.path.exists(p) else None


def decoded(which="bundled"):
    """(bytes, decoded dict) of the bundled file or of the second real file ('second'); cached per process"""
    if which not in _FILES:
        path = bundled_path() if which == "bundled" else second_path()
        if path is None:
            _FILES[which] = (None, None)
        else:
            with open(path, "rb") as f:
                data = f.read()
            _FILES[which] = (data, nzdref.parse_file(data))
    return _FILES[which]


_PROVIDERS = {}


def provider(which="bundled"):
    """the IDateTimeZoneProvider serving a file: the built-in one, or a DateTimeZoneCache over from_stream(second file)"""
    if which not in _PROVIDERS:
        if which == "bundled":
            _PROVIDERS[which] = DateTimeZoneProviders.tzdb
        else:
            from pyoda_time.time_zones import DateTimeZoneCache
            from pyoda_time.time_zones._tzdb_date_time_zone_source import TzdbDateTimeZoneSource
            data, _ = decoded(which)
            src = TzdbDateTimeZoneSource.from_stream(io.BytesIO(data))
            _PROVIDERS[which] = DateTimeZoneCache(src)
            _PROVIDERS[which + "/source"] = src
    return _PROVIDERS[which]


def source(which="bundled"):
    if which == "bundled":
        from pyoda_time.time_zones._tzdb_date_time_zone_source import TzdbDateTimeZoneSource
        return TzdbDateTimeZoneSource.default
    provider(which)
    return _PROVIDERS[which + "/source"]


def uncached(zone):
    """the zone underneath the provider's caching wrapper, or None when it cannot be reached"""
    try:
        u = zone._time_zone
    except AttributeError:
        return None
    return u


# ---- window plans ------------------------------------------------------------------------------

CYCLE_YEARS = 400          # the weekday / leap-year pattern of yearly rules repeats every 146,097 days
FINAL_FROM_YEAR = 9997


def plan(refzone, mode, chunk_years=1000, cycle_years=CYCLE_YEARS):
    """Windows [(lo, hi)] of instants to walk for one zone.

    mode 'cycle': stored periods completely, the first `cycle_years` years of the recurring tail, and 9997..end of time.
    mode 'full' : everything, split into adjacent windows (sharing their end points) of at most chunk_years.
    Zones without a recurring tail are always walked completely in one window."""
    ts = tzrules.tail_start(refzone) if refzone is not None else None
    if ts is None:
        return [(MIN_NS, MAX_NS)]
    ys = tzrules.year_of_ns(ts)
    first_hi_year = ys + cycle_years + 1
    if mode == "cycle":
        if first_hi_year >= FINAL_FROM_YEAR:
            return [(MIN_NS, MAX_NS)]
        return [(MIN_NS, year_start_ns(first_hi_year)), (year_start_ns(FINAL_FROM_YEAR), MAX_NS)]
    out = []
    lo = MIN_NS
    y = min(first_hi_year, 9999)
    while y < 9999:
        out.append((lo, year_start_ns(y)))
        lo = year_start_ns(y)
        y += chunk_years
    out.append((lo, MAX_NS))
    return out


# ---- the walk ---------------------------------------------------------------------------------

class Walk:
    """intervals met walking a zone forward from lo until an interval reaches beyond hi"""
    __slots__ = ("tuples", "objs", "error", "steps")

    def __init__(self):
        self.tuples = []
        self.objs = []
        self.error = None      # None | ('no-progress', cur, tuple) | ('exception', cur, exc)
        self.steps = 0


def walk(zone, lo, hi, max_steps=200_000, on_step=None):
    """z0 = zone.get_zone_interval(lo); z(k+1) = zone.get_zone_interval(z(k).end) ... until has_end is false or end > hi.

    The walk itself judges nothing except progress (so that it terminates); the checks judge the list.
    on_step(k, queried ns, ZoneInterval, tuple) is called right after each step (while the zone's cache is still warm)."""
    w = Walk()
    cur = lo
    inst = mk_instant(lo)
    while True:
        try:
            zi = zone.get_zone_interval(inst)
            t = iv_tuple(zi)
        except Exception as e:  # noqa: BLE001  (judged by the caller: library exception or harness fault)
            w.error = ("exception", cur, e)
            return w
        w.steps += 1
        w.tuples.append(t)
        w.objs.append(zi)
        if on_step is not None:
            on_step(w.steps - 1, cur, zi, t)
        end = t[1]
        if end is None or end > hi:
            return w
        if end <= cur or w.steps >= max_steps:
            w.error = ("no-progress", cur, t)
            return w
        cur = end
        inst = zi.end
    return w


def probe_points(t):
    """the C04 probe instants of an interval tuple: start, start+1ns, midpoint, end-1ns (clamped to the range of Instant)"""
    s = MIN_NS if t[0] is None else t[0]
    e = MAX_NS + 1 if t[1] is None else t[1]
    pts = []
    for p in (s, s + 1, (s + e) // 2, e - 1):
        if s <= p < e and p not in pts:
            pts.append(p)
    return pts


class Index:
    """bisect index over a walked list: which interval holds an instant / which intervals can render a local value"""

    def __init__(self, tuples):
        self.tuples = tuples
        self.starts = [MIN_NS - 1 if t[0] is None else t[0] for t in tuples]
        self.cov_lo = None if tuples[0][0] is None else tuples[0][0]
        self.cov_hi = None if tuples[-1][1] is None else tuples[-1][1]

    def covers(self, a, b):
        """is every instant of [a, b] inside the walked stretch?"""
        return (self.cov_lo is None or a >= self.cov_lo) and (self.cov_hi is None or b < self.cov_hi)

    def at(self, p):
        k = bisect.bisect_right(self.starts, p) - 1
        return k

    def near(self, a, b):
        """indices of the intervals intersecting [a, b]"""
        k0 = max(0, bisect.bisect_right(self.starts, a) - 1)
        k1 = bisect.bisect_right(self.starts, b)
        return range(k0, k1)


def transitions_per_cache_period(tuples):
    """{32-day period number: number of transitions inside it} for periods holding two or more transitions"""
    c = {}
    for t in tuples:
        if t[0] is not None:
            p = (t[0] // DAY_NS) >> 5
            c[p] = c.get(p, 0) + 1
    return {p: n for p, n in c.items() if n >= 2}


# ---- watchdog: a library call that never returns must become a finding, not a hung checker -------------

import contextlib  # noqa: E402
import multiprocessing as _mp  # noqa: E402
import signal  # noqa: E402
import traceback as _tb  # noqa: E402

_HANGS = _mp.Value("i", 0)        # shared with forked workers


class Hang(BaseException):
    """raised by the CPU-time watchdog inside whatever code is running (BaseException: passes `except Exception`)"""

    def __init__(self, seconds, where):
        super().__init__("no result after %d s of CPU time" % seconds)
        self.seconds = seconds
        self.where = where


def _lib_site(frame):
    site = "?"
    stack = _tb.extract_stack(frame)
    for fr in stack:
        fn = fr.filename.replace("\\", "/")
        if "/pyoda_time/" in fn:
            site = "%s:%s" % (os.path.basename(fn), fr.name)
    return site, ["%s:%d %s" % (os.path.basename(fr.filename), fr.lineno, fr.name) for fr in stack[-8:]]


@contextlib.contextmanager
def cpu_limit(seconds):
    """Limit the CPU time (user mode, this process only - independent of machine load) of the enclosed block.
    After three blocks anywhere in the run have hit their limit, later blocks get a quarter of it."""
    if _HANGS.value >= 3:
        seconds = max(8, seconds // 4)

    def handler(sig, frame):
        raise Hang(seconds, _lib_site(frame))

    try:
        old = signal.signal(signal.SIGVTALRM, handler)
    except ValueError:          # not in the main thread: no watchdog available
        yield
        return
    signal.setitimer(signal.ITIMER_VIRTUAL, seconds)
    try:
        yield
    except Hang:
        with _HANGS.get_lock():
            _HANGS.value += 1
        raise
    finally:
        signal.setitimer(signal.ITIMER_VIRTUAL, 0)
        signal.signal(signal.SIGVTALRM, old)


def too_many_hangs(acc, limit=6):
    """after `limit` watchdog hits anywhere in the run the remaining work items are skipped (recorded as a cap)"""
    if _HANGS.value >= limit:
        acc.cap("work items skipped after %d library calls did not terminate" % limit)
        acc.outcome("skipped-after-repeated-non-termination")
        return True
    return False


def hang_violation(acc, prop, zid, h, case=None):
    site, stack = h.where
    acc.violation("%s/no-termination/%s" % (prop, zid),
                  "library call did not return within %d s of CPU time (normally milliseconds); innermost library frame %s" % (h.seconds, site),
                  {"zone": zid, "stack": stack, "case": case})


# ---- user-defined zones with a known reference (shared by C04 and C05) ------------------------------
#
# Each zone is described in the decoder's own dict form (stored periods + optional yearly-rule tail), so that
# tzrules.expected_intervals is its reference; the library object is then built from that description:
#   * without a tail: a DateTimeZone subclass written here with the public constructors (an interval list),
#   * with a tail   : the library's own _PrecalculatedDateTimeZone + _StandardDaylightAlternatingMap (private constructors),
# and each is also wrapped in the caching layer every provider zone gets (_CachedDateTimeZone._for_zone, private).

H_NS = 3600 * NS
PACK_BASE_DAY = 18720 - 18720 % 32          # first day of the 32-day cache period holding 2021-04: day 18720 = 2021-04-03
PACK_K = (1, 2, 3, 4, 5, 6)
PACK_SPACING_DAYS = (2, 5)
PACK_OFFSETS = ((0, 3600), (-12600, -9000))
PRECALC_JOINS = ((2005, 1, 20, 8), (2005, 6, 15, 12))      # inside the tail's winter / summer: the tail interval there starts before the join
PRECALC_STD = (-6 * 3600, 2 * 3600)
PRECALC_MODES = (1, 0, 2)                                   # wall, utc, standard


def user_zone_specs():
    out = []
    for k in PACK_K:
        for place in ("inside", "straddle"):
            for sp in PACK_SPACING_DAYS:
                for oa, ob in PACK_OFFSETS:
                    out.append(("packed", k, place, sp, oa, ob))
    for j in range(len(PRECALC_JOINS)):
        for std in PRECALC_STD:
            for mode in PRECALC_MODES:
                out.append(("precalc", j, std, mode))
    return out


def user_zone_label(spec):
    if spec[0] == "packed":
        return "user-zone:%d-transitions-%s-one-cache-period:%dd-apart:%+d/%+ds" % (spec[1], spec[2], spec[3], spec[4], spec[5])
    return "user-zone:stored-periods+rules:join-in-%s:std%+ds:%s-time-rules" % (("winter", "summer")[spec[1]], spec[2], ("utc", "wall", "standard")[spec[3]])


def user_zone_ref(spec):
    """the zone in the decoder's dict form"""
    if spec[0] == "packed":
        _, k, place, sp, oa, ob = spec
        if place == "inside":
            ts = [(PACK_BASE_DAY + 2 + i * sp) * DAY_NS + H_NS for i in range(k)]
        else:
            boundary = (PACK_BASE_DAY + 32) * DAY_NS
            ts = [boundary + ((2 * i - k) * sp * DAY_NS) // 2 + H_NS for i in range(k)]
        periods = []
        for i in range(k + 1):
            wall = oa if i % 2 == 0 else ob
            periods.append((nzdref.NEG if i == 0 else ts[i - 1], nzdref.POS if i == k else ts[i], "P%d" % i, wall, wall - oa))
        return {"kind": "precalc", "periods": periods, "tail": None}
    _, j, std, mode = spec
    y, m, d, h = PRECALC_JOINS[j]
    join = days_from_civil(y, m, d) * DAY_NS + h * H_NS
    t1 = days_from_civil(2000, 3, 10) * DAY_NS + 10 * H_NS
    t2 = days_from_civil(2000, 9, 15) * DAY_NS + 5 * H_NS
    third_wall = std + 3600 if j == 0 else std          # differs from the tail's offset at the join
    periods = [(nzdref.NEG, t1, "First", 3 * 3600, 0), (t1, t2, "Second", 4 * 3600, 3600), (t2, join, "Third", third_wall, 0)]
    rule = lambda month, dom, hours: {"mode": mode, "dow": 0, "advance": False, "add_day": False, "month": month, "dom": dom,  # noqa: E731
                                      "tod_ms": hours * 3600 * 1000, "flags": 0}
    tail = {"std": std, "sname": "Winter", "srule": rule(10, 5, 2), "dname": "Summer", "drule": rule(3, 10, 1), "sav": 3600}
    return {"kind": "precalc", "periods": periods, "tail": tail}


def _list_zone_class():
    from pyoda_time import DateTimeZone, Offset

    class ListZone(DateTimeZone):
        """a zone given by an explicit interval list (public base-class constructor only)"""

        def __init__(self, id_, ivs):
            offs = [iv.wall_offset for iv in ivs]
            super().__init__(id_, False, min(offs), max(offs))
            self._ivs = ivs
            self._starts = [MIN_NS - 1 if not iv.has_start else ins_ns(iv.start) for iv in ivs]

        def get_zone_interval(self, instant):
            return self._ivs[bisect.bisect_right(self._starts, ins_ns(instant)) - 1]

    return ListZone


def build_user_zone(spec):
    """-> (uncached zone, cached wrapper or None, problems list).  Private constructors are used for the rule tail and the wrapper;
    when they are missing the affected object is None and the reason is listed."""
    from pyoda_time import LocalTime, Offset
    from pyoda_time.time_zones import ZoneInterval
    ref = user_zone_ref(spec)
    problems = []
    ivs = []
    for (s, e, name, wall, sav) in ref["periods"]:
        ivs.append(ZoneInterval(name=name, start=None if s == nzdref.NEG else mk_instant(s), end=None if e == nzdref.POS else mk_instant(e),
                                wall_offset=Offset.from_seconds(wall), savings=Offset.from_seconds(sav)))
    raw = None
    if ref["tail"] is None:
        raw = _list_zone_class()("User", ivs)
    else:
        try:
            from pyoda_time.time_zones._precalculated_date_time_zone import _PrecalculatedDateTimeZone
            from pyoda_time.time_zones._standard_daylight_alternating_map import _StandardDaylightAlternatingMap
            from pyoda_time.time_zones._transition_mode import _TransitionMode
            from pyoda_time.time_zones._zone_recurrence import _ZoneRecurrence
            from pyoda_time.time_zones._zone_year_offset import _ZoneYearOffset
            t = ref["tail"]

            def rec(name, sav, r):
                yo = _ZoneYearOffset._ctor(_TransitionMode(r["mode"]), r["month"], r["dom"], r["dow"], r["advance"],
                                           LocalTime.from_milliseconds_since_midnight(r["tod_ms"]), r["add_day"])
                return _ZoneRecurrence(name, Offset.from_seconds(sav), yo, 1960, 2**31 - 1)
            tail = _StandardDaylightAlternatingMap._ctor(Offset.from_seconds(t["std"]), rec(t["sname"], 0, t["srule"]), rec(t["dname"], t["sav"], t["drule"]))
            raw = _PrecalculatedDateTimeZone("User", ivs, tail)
        except (ImportError, AttributeError, TypeError) as ex:
            problems.append("library constructors for a stored-periods+rules zone unavailable (%s)" % type(ex).__name__)
    cached = None
    if raw is not None:
        try:
            from pyoda_time.time_zones._cached_date_time_zone import _CachedDateTimeZone
            cached = _CachedDateTimeZone._for_zone(raw)
            if cached is raw:
                cached = None
                problems.append("_CachedDateTimeZone._for_zone returned the zone itself")
        except (ImportError, AttributeError, TypeError) as ex:
            problems.append("caching wrapper factory unavailable (%s)" % type(ex).__name__)
    return raw, cached, problems


def user_zone_windows(spec):
    ref = user_zone_ref(spec)
    return plan(ref, "cycle", cycle_years=12)


# ---- operation histories on the zone-interval cache, derived from its constants (shared by C04 and C06) ------------

CACHE_PERIOD_DAYS = 32       # _PERIOD_SHIFT = 5
CACHE_SLOTS = 512            # periods p and p +- 512k share a slot
CACHE_SPAN_NS = CACHE_PERIOD_DAYS * CACHE_SLOTS * DAY_NS
LONG_K = (1, 2)              # + the largest k that still lies inside the interval


def cache_order_histories(L, lo, hi, full=True):
    """Yields (anchor ns, kind, label, [instants]) - query sequences for a FRESH cached zone, computed from an interval list only.

    (a) every transition T in [lo, hi] whose UTC day is the first or last day of a 32-day cache period.  `around` = end of the previous day,
        00:00 of T's day, T-1ns, T, T+1ns, end of T's day, 00:00 of the next day (reduced set, full=False: 00:00 of T's day, T-1ns, T).  One first step, then `around` ascending, for each first step in
        {following period, previous period, T + 512 periods, T-1ns - 512 periods} and (full) {T + 1024, T-1ns - 1024 periods};
        (full) the +-512 aliases and the neighbouring periods also followed by `around` descending; (full) `around` asc/desc followed by all first steps.
    (b) every interval in [lo, hi] longer than 512 periods that ends: first end - k*512 periods (k = 1, 2 and the largest k inside the interval,
        one history each), then end-1ns, end, end+1ns, the end of that UTC day."""
    per = CACHE_PERIOD_DAYS * DAY_NS
    span = CACHE_SPAN_NS
    ok = lambda q: MIN_NS <= q <= MAX_NS  # noqa: E731
    for k in range(1, len(L)):
        T = L[k][0]
        if T is None or not (lo <= T <= hi):
            continue
        day = T // DAY_NS
        if day % CACHE_PERIOD_DAYS not in (0, CACHE_PERIOD_DAYS - 1):
            continue
        d0 = day * DAY_NS
        around = sorted({q for q in ((d0 - 1, d0, T - 1, T, T + 1, d0 + DAY_NS - 1, d0 + DAY_NS) if full else (d0, T - 1, T)) if ok(q)})
        pstart = (day - day % CACHE_PERIOD_DAYS) * DAY_NS
        firsts = [("following period", pstart + per + per // 2), ("previous period", pstart - per // 2),
                  ("+512 periods", T + span), ("-512 periods", T - 1 - span)]
        far = [("+1024 periods", T + 2 * span), ("-1024 periods", T - 1 - 2 * span)]
        kind = "edge-first-day" if day % CACHE_PERIOD_DAYS == 0 else "edge-last-day"
        for nm, f in firsts + (far if full else []):
            if ok(f):
                yield T, kind, nm + " first, then ascending", [f] + around
        if full:
            for nm, f in firsts:
                if ok(f):
                    yield T, kind, nm + " first, then descending", [f] + around[::-1]
            alls = [f for _, f in firsts + far if ok(f)]
            yield T, kind, "ascending, then all first steps", around + alls
            yield T, kind, "descending, then all first steps", around[::-1] + alls[::-1]
    for t in L:
        e = t[1]
        if e is None or not (lo <= e <= hi):
            continue
        s = MIN_NS if t[0] is None else t[0]
        if e - s <= span:
            continue
        kmax = (e - s) // span
        if s + kmax * span > e - 1:
            kmax -= 1
        tail = [q for q in (e - 1, e, e + 1, (e // DAY_NS + 1) * DAY_NS - 1) if ok(q)]
        for kk in sorted({x for x in LONG_K + (kmax,) if 1 <= x <= kmax}):
            yield e, "long-interval", "%d x 512 periods before the end first" % kk, [e - kk * span] + tail


def fresh_cached(z):
    """a new, empty caching wrapper around the zone underneath a provider zone (private factory; None when unavailable)"""
    u = uncached(z)
    if u is None:
        return None
    try:
        f = type(z)._for_zone(u)
    except Exception:  # noqa: BLE001
        return None
    return f if (f is not z and f is not u and type(f) is type(z)) else None
