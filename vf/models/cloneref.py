"""Clone routes for value objects (C09 / C18): copy.copy, copy.deepcopy and pickle round trips for protocols 2..5.

A clone must be observationally identical to its original.  A route that raises TypeError for a type (the type does not support
that protocol at all) is not a property violation: it is returned as ("unsupported", exception) and the caller records it.
Nothing here imports pyoda_time.
"""
from __future__ import annotations

import copy
import pickle

ROUTES = ("copy.copy", "copy.deepcopy") + tuple("pickle-%d" % p for p in range(2, 6))


def clones(v):
    """[(route, 'ok' | 'unsupported' | 'raises', clone or exception)]"""
    out = []
    for r in ROUTES:
        try:
            if r == "copy.copy":
                c = copy.copy(v)
            elif r == "copy.deepcopy":
                c = copy.deepcopy(v)
            else:
                p = int(r.split("-")[1])
                c = pickle.loads(pickle.dumps(v, p))
            out.append((r, "ok", c))
        except TypeError as e:
            out.append((r, "unsupported", e))
        except Exception as e:  # noqa: BLE001
            out.append((r, "raises", e))
    return out


def observe(fn):
    """value of fn() or ('raises', exception type name) - so that 'refuses to yield a bound' is an observation too"""
    try:
        return fn()
    except Exception as e:  # noqa: BLE001
        return ("raises", type(e).__name__)
