"""python -m vf.cli CNN [--tier quick|thorough] [--replay file]"""
from __future__ import annotations

import argparse
import importlib
import json
import os
import sys
import traceback


def main(argv=None):
    ap = argparse.ArgumentParser()
    ap.add_argument("pid")
    ap.add_argument("--tier", default=os.environ.get("VERIF_TIER") or "quick", choices=["quick", "thorough"])
    ap.add_argument("--replay")
    ap.add_argument("--only", default=None, help="comma-separated part names (debugging; evidence then covers only those)")
    a = ap.parse_args(argv)
    pid = a.pid.upper()
    if pid == "SELFCHECK":
        import pyoda_time
        from pyoda_time import CalendarSystem, DateTimeZoneProviders
        print("pyoda_time from", os.path.dirname(pyoda_time.__file__), "calendars", len(list(CalendarSystem.ids)),
              "zones", len(list(DateTimeZoneProviders.tzdb.ids)))
        return 0
    try:
        seed = int(os.environ.get("VERIF_SEED", "0") or 0)
    except ValueError:
        seed = 0
    from vf.core.evidence import Ctx, exc_origin, exc_site
    try:
        mod = importlib.import_module("vf.checks.%s" % pid.lower())
    except ImportError as e:
        traceback.print_exc()
        print("HARNESS-FAULT: cannot import check %s: %s" % (pid, e), file=sys.stderr)
        return 2
    if a.replay:
        with open(a.replay) as f:
            rec = json.load(f)
        if not hasattr(mod, "replay"):
            print(json.dumps(rec, indent=1))
            print("no replay function for %s; case printed above" % pid)
            return 0
        r = mod.replay(rec)
        print("REPRODUCED" if r else "not reproduced", rec.get("key"))
        return 1 if r else 0
    ctx = Ctx(pid, a.tier, seed, getattr(mod, "LEVEL", "model_checking"))
    ctx.only = set(a.only.split(",")) if a.only else None
    try:
        mod.run(ctx)
    except Exception as e:  # noqa: BLE001
        from vf.core.par import LibAbort
        if isinstance(e, LibAbort):
            for k, v in e.acc.violations.items():
                ctx.violation("%s/%s" % (pid, k), v[0], v[1])
        elif exc_origin(e) == "lib":
            # the library raised where the unchanged tree does not: a behaviour change, reported as a violation
            ctx.violation("%s/check-aborted/%s/%s" % (pid, type(e).__name__, exc_site(e)),
                          "library raised %s inside the check driver: %s" % (type(e).__name__, str(e)[:300]),
                          {"traceback": traceback.format_exception(e)[-8:]})
        else:
            traceback.print_exc()
            print("HARNESS-FAULT: %s" % e, file=sys.stderr)
            return 2
    rc = ctx.finish()
    print("%s tier=%s seed=%d states=%d transitions=%d executions=%d nontrivial=%d outcomes=%d violations=%d wall=%.1fs%s" % (
        pid, a.tier, seed, ctx.states, ctx.transitions, ctx.evaluations, ctx.nontrivial, len(ctx.outcomes),
        rc, ctx.elapsed(), (" caps=%s" % ctx.caps) if ctx.caps else ""))
    return rc


if __name__ == "__main__":
    sys.exit(main())
