"""python -m vf.cli CNN [--tier quick|thorough] [--replay file]"""
from __future__ import annotations

import argparse
import importlib
import json
import os
import sys
import traceback


ENV_PASSES = (
    # name, extra interpreter args, extra environment, label used in messages
    ("python-O-pass", ["-O"], {"PYTHONOPTIMIZE": "1"}, "python -O"),
    ("ambient-decimal-pass", [], {"VERIF_AMBIENT_DECIMAL": "1"}, "ambient decimal context prec=6 ROUND_UP"),
    # ./run pins PYTHONHASHSEED=0 for reproducibility; a user's process has another seed, i.e. another iteration order
    # of every set/dict keyed by str: answers must not depend on it
    ("hash-seed-pass", [], {"PYTHONHASHSEED": "4242"}, "PYTHONHASHSEED=4242"),
)


def _apply_ambient():
    """Ambient process state selected by the environment (set by the environment passes below): the application's
    own decimal context.  Set on the main thread's context (inherited by forked pool workers) and on DefaultContext
    (the template for threads started later)."""
    if os.environ.get("VERIF_AMBIENT_DECIMAL") == "1":
        import decimal
        for c in (decimal.getcontext(), decimal.DefaultContext):
            c.prec = 6
            c.rounding = decimal.ROUND_UP


def _environment_pass(ctx, pid, name, pyargs, extra_env, label):
    """Environment deviations, one at a time: the whole quick exploration once more in a child interpreter that differs
    from the default in ONE ambient answer, against the same oracle.
    'python -O': assertions stripped (PYTHONOPTIMIZE=1 is inherited by pool workers and first-use child interpreters);
    the library has >100 assert statements, and a property that only holds while they execute does not hold for a user
    running python -O.  'ambient decimal context': the application has lowered decimal precision and changed the
    rounding mode; the library's arithmetic is integer arithmetic and must not notice.  'hash seed': another string-hash
    seed than the one ./run pins, i.e. another iteration order of sets and str-keyed dicts.
    Violations of the child are merged under their own keys (so known findings still match)."""
    import glob
    import shutil
    import subprocess
    import tempfile
    from vf.core.evidence import Acc
    out = tempfile.mkdtemp(prefix="vf-pyopt-")
    acc = Acc()
    try:
        env = dict(os.environ, VERIF_OUT=out, VERIF_TIER="quick", VERIF_ENV_PASSES="0", **extra_env)
        r = subprocess.run([sys.executable] + pyargs + ["-m", "vf.cli", pid, "--tier", "quick"], env=env,
                           capture_output=True, text=True)
        if r.returncode not in (0, 1):
            print(r.stdout[-2000:], r.stderr[-4000:], file=sys.stderr)
            raise RuntimeError("%s pass of %s ended with exit %d" % (label, pid, r.returncode))
        try:
            with open(os.path.join(out, "evidence", "%s.json" % pid)) as f:
                ev = json.load(f)
            cov = ev.get("coverage", ev)
            acc.count(states=int(cov.get("states", 0)), transitions=int(cov.get("transitions", 0)),
                      evaluations=int(cov.get("evaluations", 0) or cov.get("traces_validated_against_impl", 0)),
                      nontrivial=int(cov.get("distinct_nontrivial", 0)))
            for c in cov.get("caps_hit", []) or []:
                acc.cap("%s pass: %s" % (label, c))
        except (OSError, ValueError):
            pass
        for p in sorted(glob.glob(os.path.join(out, "replays", "%s-*.json" % pid))):
            with open(p) as f:
                rec = json.load(f)
            py = None
            tp = os.path.join(out, "replays", "test_%s" % os.path.basename(p).replace("-", "_").replace(".json", ".py"))
            if os.path.exists(tp):
                with open(tp) as f:
                    py = "# NOTE: seen only under: %s (environment %r)\n" % (label, extra_env) + f.read()
            acc.violation(rec.get("key", os.path.basename(p)), "[%s] %s" % (label, rec.get("what", "")),
                          {"environment": extra_env, "case": rec.get("case")}, py)
        for line in r.stdout.splitlines():
            if line.startswith("KNOWN-FINDING"):
                acc.outcome("%s: known finding reported" % label)
        acc.outcome("%s pass exit %d" % (label, r.returncode))
        acc.note("command", "%s python %s -m vf.cli %s --tier quick" % (
            " ".join("%s=%s" % kv for kv in extra_env.items()), " ".join(pyargs), pid))
    finally:
        shutil.rmtree(out, ignore_errors=True)
    ctx.merge_part(name, acc)


def main(argv=None):
    ap = argparse.ArgumentParser()
    ap.add_argument("pid")
    ap.add_argument("--tier", default=os.environ.get("VERIF_TIER") or "quick", choices=["quick", "thorough"])
    ap.add_argument("--replay")
    ap.add_argument("--only", default=None, help="comma-separated part names (debugging; evidence then covers only those)")
    a = ap.parse_args(argv)
    pid = a.pid.upper()
    if pid == "SELFCHECK":
        import pyoda_time
        from pyoda_time import CalendarSystem, DateTimeZoneProviders
        print("pyoda_time from", os.path.dirname(pyoda_time.__file__), "calendars", len(list(CalendarSystem.ids)),
              "zones", len(list(DateTimeZoneProviders.tzdb.ids)))
        return 0
    _apply_ambient()
    try:
        seed = int(os.environ.get("VERIF_SEED", "0") or 0)
    except ValueError:
        seed = 0
    from vf.core.evidence import Ctx, exc_origin, exc_site
    try:
        mod = importlib.import_module("vf.checks.%s" % pid.lower())
    except ImportError as e:
        traceback.print_exc()
        print("HARNESS-FAULT: cannot import check %s: %s" % (pid, e), file=sys.stderr)
        return 2
    cul = os.environ.get("VERIF_AMBIENT_CULTURE")
    if cul:
        # the process's current culture (what str()/format() without an explicit culture use); set after the check module is
        # imported because the schedule-exploring checks must replace threading.Lock before pyoda_time is imported
        from pyoda_time._compatibility._culture_info import CultureInfo
        CultureInfo.current_culture = CultureInfo(cul)
    if a.replay:
        with open(a.replay) as f:
            rec = json.load(f)
        if not hasattr(mod, "replay"):
            print(json.dumps(rec, indent=1))
            print("no replay function for %s; case printed above" % pid)
            return 0
        r = mod.replay(rec)
        print("REPRODUCED" if r else "not reproduced", rec.get("key"))
        return 1 if r else 0
    ctx = Ctx(pid, a.tier, seed, getattr(mod, "LEVEL", "model_checking"))
    ctx.only = set(a.only.split(",")) if a.only else None
    try:
        mod.run(ctx)
    except Exception as e:  # noqa: BLE001
        from vf.core.par import LibAbort
        if isinstance(e, LibAbort):
            for k, v in e.acc.violations.items():
                ctx.violation("%s/%s" % (pid, k), v[0], v[1])
        elif exc_origin(e) == "lib":
            # the library raised where the unchanged tree does not: a behaviour change, reported as a violation
            ctx.violation("%s/check-aborted/%s/%s" % (pid, type(e).__name__, exc_site(e)),
                          "library raised %s inside the check driver: %s" % (type(e).__name__, str(e)[:300]),
                          {"traceback": traceback.format_exception(e)[-8:]})
        else:
            traceback.print_exc()
            print("HARNESS-FAULT: %s" % e, file=sys.stderr)
            return 2
    want = os.environ.get("VERIF_ENV_PASSES")      # "1": also in the quick tier; "0": never (set for the children)
    if (a.tier == "thorough" or want == "1") and want != "0" and not a.only:
        for name, pyargs, extra_env, label in ENV_PASSES:
            _environment_pass(ctx, pid, name, pyargs, extra_env, label)
        ctx.rule = (ctx.rule or "") + (" || environment passes: the quick-tier exploration is repeated in child interpreters under %s; "
                                       "their counts are listed per pass under 'parts' and are included in the totals as (environment, case) pairs"
                                       % ", ".join(p[3] for p in ENV_PASSES))
    rc = ctx.finish()
    print("%s tier=%s seed=%d states=%d transitions=%d executions=%d nontrivial=%d outcomes=%d violations=%d wall=%.1fs%s" % (
        pid, a.tier, seed, ctx.states, ctx.transitions, ctx.evaluations, ctx.nontrivial, len(ctx.outcomes),
        rc, ctx.elapsed(), (" caps=%s" % ctx.caps) if ctx.caps else ""))
    return rc


if __name__ == "__main__":
    sys.exit(main())
