"""Binding layer to pyoda_time: fast private paths with public fallbacks, verified on a probe set at import.

A private path that is missing or disagrees with its public equivalent is replaced by the public one (and
listed in DEGRADED) - a refactor of internals must not raise an alarm.
"""
from __future__ import annotations

from pyoda_time import CalendarSystem, LocalDate, Period

DEGRADED = []
_EPOCH_ISO = LocalDate(1970, 1, 1)
_EPOCH_IN = {}


def calendars():
    return [CalendarSystem.for_id(i) for i in CalendarSystem.ids]


def _epoch_in(cal):
    e = _EPOCH_IN.get(cal.id)
    if e is None:
        e = _EPOCH_ISO.with_calendar(cal)
        _EPOCH_IN[cal.id] = e
    return e


def _date_from_days_public(cal, n):
    return _EPOCH_ISO.plus_days(n).with_calendar(cal)


def _date_from_days_private(cal, n):
    return LocalDate._ctor(days_since_epoch=n, calendar=cal)


def _days_of_public(ld):
    return Period.days_between(_epoch_in(ld.calendar), ld)


def _days_of_private(ld):
    return ld._days_since_epoch


def _range_public(cal):
    lo = LocalDate(cal.min_year, 1, 1, cal)
    # first day of the minimum year may not be month 1 (Hebrew scriptural): take the smaller of the month starts
    cands = [LocalDate(cal.min_year, m, 1, cal) for m in range(1, cal.get_months_in_year(cal.min_year) + 1)]
    lo = min(cands)
    cands = [LocalDate(cal.max_year, m, cal.get_days_in_month(cal.max_year, m), cal)
             for m in range(1, cal.get_months_in_year(cal.max_year) + 1)]
    hi = max(cands)
    return _days_of_public(lo), _days_of_public(hi)


def _range_private(cal):
    return cal._min_days, cal._max_days


date_from_days = _date_from_days_private
days_of = _days_of_private
day_range = _range_private


def _selfcheck():
    global date_from_days, days_of, day_range
    probes = [0, 1, -1, 365, -400, 18262, 11016]
    iso = CalendarSystem.iso
    try:
        for n in probes:
            a = _date_from_days_private(iso, n)
            b = _date_from_days_public(iso, n)
            if a != b:
                raise ValueError("private from-days path disagrees with public")
    except Exception as e:  # noqa: BLE001
        DEGRADED.append("LocalDate._ctor(days_since_epoch=) unavailable (%s): using plus_days/with_calendar" % type(e).__name__)
        date_from_days = _date_from_days_public
    try:
        for n in probes:
            d = _date_from_days_public(iso, n)
            if _days_of_private(d) != _days_of_public(d):
                raise ValueError("private days path disagrees with public")
    except Exception as e:  # noqa: BLE001
        DEGRADED.append("LocalDate._days_since_epoch unavailable (%s): using Period.days_between" % type(e).__name__)
        days_of = _days_of_public
    try:
        for cal in (CalendarSystem.iso, CalendarSystem.coptic):
            lo, hi = _range_private(cal)
            if not (isinstance(lo, int) and isinstance(hi, int) and lo < hi):
                raise ValueError("bad range")
    except Exception as e:  # noqa: BLE001
        DEGRADED.append("CalendarSystem._min_days/_max_days unavailable (%s): range derived from public API" % type(e).__name__)
        day_range = _range_public


_selfcheck()
