"""Preemption-bounded stateless exploration of real threads (CHESS-style iterative context bounding).

Exactly one harness thread runs at a time.  Scheduling points:
  (a) every sys.settrace 'line' event (or every 'opcode' event) in the files named by the harness;
  (b) every acquire/release of a ModelLock.
install_lock_factory() must be called BEFORE pyoda_time is imported: it replaces threading.Lock by a
factory of HybridLocks (cooperative inside a controlled execution, a real lock outside), so every lock
the library creates at import/class-definition time or later is under the scheduler's control.
"""
from __future__ import annotations

import _thread
import sys
import threading
import time

_REAL_LOCK = threading.Lock
_CUR = [None]            # the Sched currently executing (one at a time per process)
_INSTALLED = [False]


LOCK_TIMEOUT_S = 8


class LockTimeout(RuntimeError):
    """a library lock acquired outside the scheduler stayed held (a previous operation left it locked)"""


class BSem:
    """binary semaphore on a raw _thread lock (threading.Semaphore would itself use the patched threading.Lock)"""

    __slots__ = ("l",)

    def __init__(self):
        self.l = _thread.allocate_lock()
        self.l.acquire()

    def release(self):
        try:
            self.l.release()
        except RuntimeError:
            pass

    def acquire(self, timeout=-1):
        return self.l.acquire(True, timeout)


class Abort(BaseException):
    """raised inside harness threads to unwind them once an execution has been declared dead"""


class HybridLock:
    def __init__(self):
        self.owner = None
        self.real = _REAL_LOCK()

    def _sched(self):
        s = _CUR[0]
        if s is not None and _thread.get_ident() in s.tids:
            return s
        return None

    def acquire(self, blocking=True, timeout=-1):
        s = self._sched()
        if s is None:
            if blocking and timeout == -1:
                # outside a controlled execution a library lock that is never released would hang the whole check:
                # report it instead (the library's critical sections are microseconds long)
                if not self.real.acquire(True, LOCK_TIMEOUT_S):
                    raise LockTimeout("a library lock was not released within %d s" % LOCK_TIMEOUT_S)
                return True
            return self.real.acquire(blocking, timeout)
        tid = s.tids[_thread.get_ident()]
        s.point(tid, "lock.acquire")
        while self.owner is not None:
            if not blocking:
                return False
            s.block(tid, self)
        self.owner = tid
        return True

    def release(self):
        s = self._sched()
        if s is None:
            return self.real.release()
        tid = s.tids[_thread.get_ident()]
        self.owner = None
        s.unblock(self)
        s.point(tid, "lock.release")

    def locked(self):
        return self.owner is not None or self.real.locked()

    def _at_fork_reinit(self):
        self.owner = None
        self.real._at_fork_reinit()

    def __enter__(self):
        self.acquire()
        return self

    def __exit__(self, *a):
        self.release()


def install_lock_factory():
    """Replace threading.Lock by the HybridLock factory.  Idempotent.  Call before importing pyoda_time."""
    if _INSTALLED[0]:
        return
    if "pyoda_time" in sys.modules:
        raise RuntimeError("install_lock_factory() must run before pyoda_time is imported")
    threading.Lock = HybridLock
    _INSTALLED[0] = True


def uninstall_lock_factory():
    threading.Lock = _REAL_LOCK


class Sched:
    def __init__(self, bodies, prefix, files, opcodes=False, horizon=200000):
        self.bodies = bodies
        self.prefix = list(prefix)
        self.files = tuple(files)
        self.opcodes = opcodes
        self.horizon = horizon
        n = len(bodies)
        self.sems = [BSem() for _ in range(n)]
        self.main = BSem()
        self.done = [False] * n
        self.blocked = [None] * n
        self.results = [None] * n
        self.errors = [None] * n
        self.tids = {}
        self.trace = []       # (choice index, number of options, running thread still enabled)
        self.points = []      # where each thread was when it yielded (for determinism comparison / replay files)
        self.dead = False
        self.status = None

    # -- called from harness threads
    def point(self, tid, where):
        if self.dead:
            return
        self.points.append((tid, where))
        self.main.release()
        self.sems[tid].acquire()
        if self.dead:
            raise Abort()

    def block(self, tid, lock):
        if self.dead:
            raise Abort()
        self.blocked[tid] = lock
        self.main.release()
        self.sems[tid].acquire()
        if self.dead:
            raise Abort()

    def unblock(self, lock):
        for i, b in enumerate(self.blocked):
            if b is lock:
                self.blocked[i] = None

    def _tracer(self, tid):
        files = self.files
        opc = self.opcodes

        def local(frame, event, arg):
            if event == "opcode" or (event == "line" and not opc):
                self.point(tid, (frame.f_code.co_name, frame.f_lineno, frame.f_lasti if opc else -1))
            return local

        plain = tuple(f for f in files if "::" not in f)
        scoped = [(f.split("::")[0], frozenset(f.split("::")[1].split("|"))) for f in files if "::" in f]

        everything = "*pyoda_time*" in plain

        def wanted(code):
            fn = code.co_filename
            if everything and "/pyoda_time/" in fn.replace("\\", "/"):
                return True
            if plain and fn.endswith(plain):
                return True
            for f, names in scoped:
                if fn.endswith(f) and code.co_name in names:
                    return True
            return False

        def glob(frame, event, arg):
            # an entry "file.py::f|g" restricts scheduling points to functions f and g of that file (the rest of the file
            # must not touch shared state); a plain "file.py" makes every line/opcode of the file a scheduling point
            if wanted(frame.f_code):
                if opc:
                    frame.f_trace_opcodes = True
                return local
            return None

        return glob

    def _run_thread(self, tid):
        self.tids[_thread.get_ident()] = tid
        self.sems[tid].acquire()
        try:
            if self.dead:
                raise Abort()
            sys.settrace(self._tracer(tid))
            try:
                self.results[tid] = self.bodies[tid]()
            finally:
                sys.settrace(None)
        except BaseException as e:  # noqa: BLE001
            self.errors[tid] = e
        finally:
            self.done[tid] = True
            if not self.dead:
                self.main.release()

    def _kill(self, threads):
        self.dead = True
        for i, t in enumerate(threads):
            if not self.done[i]:
                self.sems[i].release()
        for t in threads:
            t.join(5)

    def run(self):
        n = len(self.bodies)
        _CUR[0] = self
        threads = [threading.Thread(target=self._run_thread, args=(i,), daemon=True) for i in range(n)]
        for t in threads:
            t.start()
        deadline = time.time() + 60
        while len(self.tids) < n:
            if time.time() > deadline:
                raise RuntimeError("harness threads did not start")
            time.sleep(0.0002)
        cur = None
        step = 0
        try:
            while not all(self.done):
                enabled = [i for i in range(n) if not self.done[i] and self.blocked[i] is None]
                if not enabled:
                    self.status = "DEADLOCK"
                    self.blocked_at = [None if b is None else i for i, b in enumerate(self.blocked)]
                    self._kill(threads)
                    return self.status
                if step >= self.horizon:
                    self.status = "LIVELOCK"
                    self._kill(threads)
                    return self.status
                order = ([cur] if cur in enabled else []) + [i for i in enabled if i != cur]
                k = self.prefix[step] if step < len(self.prefix) else 0
                if k >= len(order):
                    self._kill(threads)
                    raise ReplayDivergence("choice %d of %d at step %d" % (k, len(order), step))
                self.trace.append((k, len(order), cur in enabled))
                cur = order[k]
                step += 1
                self.sems[cur].release()
                if not self.main.acquire(timeout=30):
                    self._kill(threads)
                    raise RuntimeError("no scheduling point reached within 30 s (harness fault)")
            for t in threads:
                t.join()
            self.status = "OK"
            return self.status
        finally:
            _CUR[0] = None


class ReplayDivergence(RuntimeError):
    pass


def run_schedule(make, prefix, files, opcodes):
    bodies, ctx = make()
    s = Sched(bodies, prefix, files, opcodes)
    s.run()
    return s, ctx


def explore(make, files, bound, opcodes=False, check=None, max_runs=None, max_seconds=None):
    """Run every schedule with at most `bound` preemptions.

    make()  -> (list of thread bodies, context)      fresh shared objects for every execution
    check(s, ctx) -> (outcome_label, violation_or_None)
    Returns dict(runs, outcomes, violations=[(label, what, schedule)], capped, points_max, deterministic)
    """
    runs = 0
    outcomes = {}
    violations = []
    points_max = 0
    capped = False
    # warm-up: CPython 3.12 delivers fewer 'opcode' events the first time a code object runs under an opcode
    # tracer (instrumentation is installed lazily), so every code object is executed once before anything counts
    if opcodes:
        for _ in range(2):
            run_schedule(make, [], files, opcodes)
        nb = len(make()[0])
        for first in range(1, nb):
            try:
                run_schedule(make, [first], files, opcodes)
            except ReplayDivergence:
                pass
    # determinism proof: the default schedule twice
    s1, c1 = run_schedule(make, [], files, opcodes)
    o1, _ = check(s1, c1)
    s2, c2 = run_schedule(make, [], files, opcodes)
    o2, _ = check(s2, c2)
    deterministic = (s1.trace == s2.trace and s1.points == s2.points and o1 == o2)
    if not deterministic:
        raise ReplayDivergence("default schedule is not reproducible: %r vs %r / %d vs %d points" % (o1, o2, len(s1.points), len(s2.points)))
    stack = [[]]
    seen_viol = set()
    t_end = None if max_seconds is None else time.process_time() + max_seconds
    while stack:
        if (max_runs is not None and runs >= max_runs) or (t_end is not None and time.process_time() > t_end):
            capped = True
            break
        prefix = stack.pop()
        s, c = run_schedule(make, prefix, files, opcodes)
        runs += 1
        points_max = max(points_max, len(s.trace))
        label, viol = check(s, c)
        outcomes[label] = outcomes.get(label, 0) + 1
        if viol is not None and label not in seen_viol:
            # a failing schedule must fail identically once more before it is believed
            sched = [t[0] for t in s.trace]
            sr, cr = run_schedule(make, sched, files, opcodes)
            lr, vr = check(sr, cr)
            if lr != label:
                raise ReplayDivergence("failing schedule did not reproduce: %r then %r" % (label, lr))
            seen_viol.add(label)
            violations.append((label, viol, sched))
        cost = 0
        costs = []
        for (k, nopt, running_enabled) in s.trace:
            costs.append(cost)
            if k > 0 and running_enabled:
                cost += 1
        for i in range(len(prefix), len(s.trace)):
            k, nopt, running_enabled = s.trace[i]
            c_ = costs[i] + (1 if running_enabled else 0)
            if c_ > bound:
                continue
            for alt in range(1, nopt):
                stack.append([t[0] for t in s.trace[:i]] + [alt])
    return {"runs": runs, "outcomes": outcomes, "violations": violations, "capped": capped,
            "points_max": points_max, "deterministic": deterministic}
