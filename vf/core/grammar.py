"""Bounded-exhaustive generators of pattern texts and of input-text mutations (C07, C08, C13 may share it).

Nothing here imports pyoda_time: the generators work on text only.  Two families:

1. *Well-formed custom patterns* (C07, and as the "created patterns" of C08): an ordered selection of <= k distinct
   fields of a type's field table, every width variant of each field, joined by one delimiter style.  Each generated
   pattern carries its field list, so the reference model (models/textref.py) knows by construction which fields the
   pattern can represent.  Delimiters are never '-' / '+' (sign characters of the numeric and sign parsers), so every
   numeric field is delimited.
2. *Arbitrary pattern texts* (C08): all strings up to a length over an explicit alphabet, and single-edit mutations /
   numeric-run replacements of input texts.

Everything is deterministic and ordered simplest-first.
"""
from __future__ import annotations

import itertools
import re
from typing import NamedTuple

KINDS = ("offset", "duration", "time", "date", "datetime", "instant", "annual")

FRAC_TOKENS = ("f", "fff", "ffffff", "fffffffff", "F", "FFF", "FFFFFF", "FFFFFFFFF")
# '.'/';' directly followed by F form one optional-separator fraction token; '.fff' is a literal dot plus fixed digits
FRAC_TOKENS_DOT = (".FFF", ".FFFFFFFFF", ".fff")
FRAC_TOKENS_SEMI = (";FFF", ";FFFFFFFFF", ";fff")

# field tables, read off the character-handler tables of the seven pattern parsers
FIELDS = {
    "offset": (("sign", ("+", "-")), ("H", ("H", "HH")), ("m", ("m", "mm")), ("s", ("s", "ss"))),
    "duration": (("sign", ("+", "-")), ("D", ("D", "DD")), ("TH", ("H", "HH")), ("h", ("h", "hh")),
                 ("TM", ("M", "MM")), ("m", ("m", "mm")), ("TS", ("S", "SS")), ("s", ("s", "ss")),
                 ("frac", FRAC_TOKENS + FRAC_TOKENS_DOT)),
    "time": (("h12", ("h", "hh")), ("H24", ("H", "HH")), ("min", ("m", "mm")), ("sec", ("s", "ss")),
             ("frac", FRAC_TOKENS + FRAC_TOKENS_DOT + FRAC_TOKENS_SEMI), ("ampm", ("t", "tt"))),
    "date": (("yoe", ("yy", "yyyy")), ("year", ("u", "uu", "uuu", "uuuu")), ("mnum", ("M", "MM")),
             ("mtext", ("MMM", "MMMM")), ("day", ("d", "dd")), ("dow", ("ddd", "dddd")), ("cal", ("c",)),
             ("era", ("g", "gg"))),
    "annual": (("mnum", ("M", "MM")), ("mtext", ("MMM", "MMMM")), ("day", ("d", "dd"))),
}
FIELDS["datetime"] = FIELDS["date"] + FIELDS["time"]
FIELDS["instant"] = tuple(f for f in FIELDS["datetime"] if f[0] in ("year", "yoe", "mnum", "day", "H24", "min", "sec", "frac"))

DATE_FIELD_NAMES = frozenset(n for n, _ in FIELDS["date"])
TIME_FIELD_NAMES = frozenset(n for n, _ in FIELDS["time"])

DELIM_STYLES = ("q", "dq", "esc", "sep", "sp")
_DELIM_TEXT = {"q": "'~'", "dq": '"~"', "esc": "\\~", "sp": " ", "T": "'T'"}

# duration: total fields and the partial fields each of them may be combined with (only finer ones)
_DUR_RANK = {"D": 4, "TH": 3, "h": 3, "TM": 2, "m": 2, "TS": 1, "s": 1, "frac": 0}
_DUR_TOTALS = ("D", "TH", "TM", "TS")

# standard (single letter) patterns per type
STANDARD = {
    "offset": ("g", "G", "i", "I", "l", "m", "s", "L", "M", "S"),
    "duration": ("o", "j"),
    "time": ("t", "T", "r", "o", "O"),
    "date": ("d", "D", "M", "R", "r"),
    "datetime": ("f", "F", "g", "G", "o", "O", "r", "R", "s", "S"),
    "instant": ("g",),
    "annual": ("G",),
}


class Pat(NamedTuple):
    kind: str
    text: str
    fields: tuple          # ((field name, token), ...) in pattern order
    delim: str             # delimiter style ("" for single-field patterns)

    @property
    def names(self):
        return tuple(n for n, _ in self.fields)


def delim_text(kind: str, style: str, left: str, right: str) -> str:
    if style == "sep":
        if kind in ("date", "annual"):
            return "/"
        if kind in ("datetime", "instant") and left in DATE_FIELD_NAMES and right in DATE_FIELD_NAMES:
            return "/"
        return ":"
    return _DELIM_TEXT[style]


def wellformed(kind: str, names) -> bool:
    """Static validity of a field selection according to the documented pattern rules."""
    s = set(names)
    if kind in ("date", "datetime", "instant"):
        if "era" in s and "yoe" not in s:
            return False            # era needs a year-of-era
        if "era" in s and "cal" in s:
            return False            # calendar and era cannot be combined
    if kind == "duration":
        totals = [n for n in names if n in _DUR_TOTALS]
        if len(totals) > 1:
            return False
        if "TH" in s and "h" in s or "TM" in s and "m" in s or "TS" in s and "s" in s:
            return False            # same pattern field flag -> repeated field
        if totals:
            t = totals[0]
            if any(_DUR_RANK[n] > _DUR_RANK[t] for n in names if n not in ("sign", t)):
                return False        # the total field must be the coarsest one present
        if s <= {"sign"}:
            return False            # a sign alone carries no magnitude
    if kind == "offset" and s <= {"sign"}:
        return False
    return True


def _join(kind, names, tokens, style):
    parts = [tokens[0]]
    for i in range(1, len(tokens)):
        parts.append(delim_text(kind, style, names[i - 1], names[i]))
        parts.append(tokens[i])
    text = "".join(parts)
    if len(text) == 1:
        text = "%" + text          # a single character would be read as a standard pattern
    return text


def custom_patterns(kind: str, k: int, reduce_from: int = 3, reduce_delims_from: int | None = None):
    """All well-formed patterns of <= k distinct fields of `kind`.

    For selections of >= reduce_from fields the width variants are reduced to (shortest, longest); for selections of
    >= reduce_delims_from fields (default: the same bound) the delimiter styles are reduced to ('q', 'sep'); callers
    record that as a cap.  Yields Pat, simplest first.
    """
    if reduce_delims_from is None:
        reduce_delims_from = reduce_from
    table = FIELDS[kind]
    variants = dict(table)
    names_all = [n for n, _ in table]
    for n in range(1, k + 1):
        for names in itertools.permutations(names_all, n):
            if not wellformed(kind, names):
                continue
            reduced = n >= reduce_from
            vlists = []
            for nm in names:
                v = variants[nm]
                if reduced and len(v) > 2:
                    v = (v[0], v[-1]) if nm != "frac" else ("fff", "FFFFFFFFF")
                vlists.append(v)
            styles = ("",) if n == 1 else (("q", "sep") if n >= reduce_delims_from else DELIM_STYLES)
            for tokens in itertools.product(*vlists):
                for st in styles:
                    yield Pat(kind, _join(kind, names, tokens, st), tuple(zip(names, tokens)), st)


def count_custom(kind, k, reduce_from=3, reduce_delims_from=None):
    return sum(1 for _ in custom_patterns(kind, k, reduce_from, reduce_delims_from))


# --- composite texts for LocalDateTime: 'T' join and embedded ld<...>/lt<...> patterns ---------------------------

def datetime_composites(k_each: int = 1, full: bool = True):
    """date part x time part patterns for LocalDateTime: joined by a quoted 'T', a space, or with either part embedded.

    The parts are the well-formed date / time patterns of <= k_each fields with the quoted delimiter only.
    Yields Pat(kind='datetime'); `fields` is the concatenation of the parts' fields.
    """
    dparts = [p for p in custom_patterns("date", k_each) if p.delim in ("", "q")]
    tparts = [p for p in custom_patterns("time", k_each) if p.delim in ("", "q")]
    for dp in dparts:
        # an embedded part is a pattern text of its own (a single letter needs its '%'); inline parts do not
        dtext = dp.text[1:] if dp.text.startswith("%") else dp.text
        for tp in tparts:
            ttext = tp.text[1:] if tp.text.startswith("%") else tp.text
            if not wellformed("datetime", dp.names + tp.names):
                continue
            f = dp.fields + tp.fields
            yield Pat("datetime", "%s'T'%s" % (dtext, ttext), f, "T")
            yield Pat("datetime", "ld<%s>'~'lt<%s>" % (dp.text, tp.text), f, "ld+lt")
            yield Pat("datetime", "ld<%s> %s" % (dp.text, ttext), f, "ld")
            yield Pat("datetime", "%s'~'lt<%s>" % (dtext, tp.text), f, "lt")
            if full:
                yield Pat("datetime", "lt<%s>'~'%s" % (tp.text, dtext), tp.fields + dp.fields, "lt-first")


# fixed multi-field texts worth having in every run (the documented ISO-like shapes and typical culture shapes)
FIXED = {
    "offset": (("+HH:mm", ("sign", "H", "m")), ("-HH:mm:ss", ("sign", "H", "m", "s")), ("+HHmm", ("sign", "H", "m")),
               ("+H", ("sign", "H"))),
    "duration": (("-D:hh:mm:ss.FFFFFFFFF", ("sign", "D", "h", "m", "s", "frac")),
                 ("-H:mm:ss.FFFFFFFFF", ("sign", "TH", "m", "s", "frac")), ("+M:ss.fff", ("sign", "TM", "s", "frac")),
                 ("S.fffffffff", ("TS", "frac")), ("D'd 'hh'h 'mm'm 'ss's'", ("D", "h", "m", "s"))),
    "time": (("HH':'mm':'ss;FFFFFFFFF", ("H24", "min", "sec", "frac")), ("HH:mm:ss.fffffffff", ("H24", "min", "sec", "frac")),
             ("h:mm:ss tt", ("h12", "min", "sec", "ampm")), ("hh:mm t", ("h12", "min", "ampm")), ("HH:mm", ("H24", "min")),
             ("tt h.mm", ("ampm", "h12", "min"))),
    "date": (("uuuu'-'MM'-'dd", ("year", "mnum", "day")), ("uuuu'-'MM'-'dd '('c')'", ("year", "mnum", "day", "cal")),
             ("dddd, d MMMM uuuu", ("dow", "day", "mtext", "year")), ("ddd d MMM yyyy gg", ("dow", "day", "mtext", "yoe", "era")),
             ("d/M/yy", ("day", "mnum", "yoe")), ("yyyy MM dd g", ("yoe", "mnum", "day", "era")),
             ("MMMM d", ("mtext", "day")), ("dd.MM.uuuu c", ("day", "mnum", "year", "cal"))),
    "datetime": (("uuuu'-'MM'-'dd'T'HH':'mm':'ss;FFFFFFFFF", ("year", "mnum", "day", "H24", "min", "sec", "frac")),
                 ("uuuu'-'MM'-'dd'T'HH':'mm':'ss'.'fffffffff '('c')'", ("year", "mnum", "day", "H24", "min", "sec", "frac", "cal")),
                 ("dddd, d MMMM yyyy gg h:mm:ss tt", ("dow", "day", "mtext", "yoe", "era", "h12", "min", "sec", "ampm")),
                 ("d/M/yy H:mm", ("day", "mnum", "yoe", "H24", "min")),
                 ("ld<uuuu'-'MM'-'dd>'T'lt<HH':'mm':'ss>", ("year", "mnum", "day", "H24", "min", "sec"))),
    "instant": (("uuuu-MM-ddTHH:mm:ss'Z'", ("year", "mnum", "day", "H24", "min", "sec")),
                ("uuuu'-'MM'-'dd'T'HH':'mm':'ss;FFFFFFFFF'Z'", ("year", "mnum", "day", "H24", "min", "sec", "frac")),
                ("d/M/yyyy HH:mm:ss.fff", ("day", "mnum", "yoe", "H24", "min", "sec", "frac"))),
    "annual": (("MM'-'dd", ("mnum", "day")), ("d MMMM", ("day", "mtext")), ("MMM/dd", ("mtext", "day")), ("dd/MM", ("day", "mnum"))),
}

_TOKEN_RE = {
    "sign": r"[+-]", "H": r"H+", "m": r"m+", "s": r"s+", "D": r"D+", "TH": r"H+", "h": r"h+", "TM": r"M+", "TS": r"S+",
    "frac": r"[.;]?[fF]+", "h12": r"h+", "H24": r"H+", "min": r"m+", "sec": r"s+", "ampm": r"t+", "yoe": r"y+", "year": r"u+",
    "mnum": r"M{1,2}(?!M)", "mtext": r"M{3,4}", "day": r"d{1,2}(?!d)", "dow": r"d{3,4}", "cal": r"c", "era": r"g+",
}


def fixed_patterns(kind):
    """The FIXED texts as Pat objects (tokens recovered by scanning the unquoted part of the text)."""
    for text, names in FIXED[kind]:
        bare = re.sub(r"'[^']*'|\"[^\"]*\"|\\.|l[dt]<|>", " ", text)
        pos = 0
        fields = []
        for nm in names:
            m = re.compile(_TOKEN_RE[nm]).search(bare, pos)
            assert m, (text, nm)
            fields.append((nm, m.group(0)))
            pos = m.end()
        yield Pat(kind, text, tuple(fields), "fixed")


# =================================================================================================================
# C08: arbitrary strings and input-text mutations
# =================================================================================================================

# every handler letter of any of the seven parsers, the structural characters, and four "foreign" characters
SIGMA = tuple("yuMdcghHmsfFtDSZTl") + ("'", '"', "\\", "%", "<", ">", ":", "/", ".", ";", "+", "-", " ") + ("7", "x", "\0", "é")
SIGMA_STRUCT = ("'", '"', "\\", "%", "<", ">", "l", "d", "H", "x")

MUT_CHARS = ("0", "9", "a", "-", "+", ":", ".", ",", " ", "\0", "٣", "É")
RUN_REPLACEMENTS = ("0", "00", "99", "24", "60", "61", "13", "32", "9999", "10000", "99999999999999999999", "²")


def strings(alphabet, maxlen, minlen=1):
    """All strings over `alphabet` with minlen <= length <= maxlen, shortest first, in alphabet order."""
    for n in range(minlen, maxlen + 1):
        for t in itertools.product(alphabet, repeat=n):
            yield "".join(t)


def count_strings(alphabet, maxlen, minlen=1):
    a = len(alphabet)
    return sum(a ** n for n in range(minlen, maxlen + 1))


def nth_string(alphabet, maxlen, index, minlen=1):
    """The index-th element of strings(alphabet, maxlen, minlen) without enumerating (for sharding)."""
    a = len(alphabet)
    for n in range(minlen, maxlen + 1):
        if index < a ** n:
            out = []
            for _ in range(n):
                index, r = divmod(index, a)
                out.append(alphabet[r])
            return "".join(reversed(out))
        index -= a ** n
    raise IndexError(index)


def string_range(alphabet, maxlen, lo, hi, minlen=1):
    """strings(...)[lo:hi] computed directly."""
    for i in range(lo, hi):
        yield nth_string(alphabet, maxlen, i, minlen)


def single_edits(text: str, chars=MUT_CHARS):
    """Every single-edit mutation: delete each position, substitute / insert each of `chars` at each position."""
    seen = {text}
    for i in range(len(text)):
        m = text[:i] + text[i + 1:]
        if m not in seen:
            seen.add(m)
            yield m
    for i in range(len(text) + 1):
        for ch in chars:
            m = text[:i] + ch + text[i:]
            if m not in seen:
                seen.add(m)
                yield m
            if i < len(text):
                m = text[:i] + ch + text[i + 1:]
                if m not in seen:
                    seen.add(m)
                    yield m


_RUN = re.compile(r"[0-9]+")


def run_replacements(text: str, repl=RUN_REPLACEMENTS):
    """Every ASCII-digit run of `text` replaced, one run at a time, by each replacement."""
    seen = {text}
    for m in _RUN.finditer(text):
        for r in repl:
            t = text[:m.start()] + r + text[m.end():]
            if t not in seen:
                seen.add(t)
                yield t


def hostile_texts():
    """Texts independent of any pattern: empty, NUL-containing, very long digit runs, lone signs, non-ASCII digits."""
    return ("", "\0", "\0\0", "0\0", "\x000", " ", "-", "+", "--", "+-", "9" * 40, "-" + "9" * 40, "٣", "²",
            "١٢:٣٠", "1e5", "0x10", "١٢", "Z", "z", "T", "‏", "\U0001d7d8", "a" * 300,
            "{", "}", "{0}", "{}", "{0", "}{", "{x}", "{0!r}", "{:>5}", "%", "%s", "%(a)s", "%%", "\\", "\\n", "$1", "\\1")


# --- ill-formed composites (C08): embedded pattern + an individual field of the same kind, repeated fields ---------

def illformed_composites(kind: str):
    """Pattern texts that the documented rules reject (creation must raise InvalidPatternError - or, if a tree accepts
    one, parsing must still never raise): an embedded ld<...> / lt<...> / l<...> combined with one individual field of
    the same kind placed before and after it, a field both inside and outside the embedding, and every pair of width
    variants of one field.  The two halves are always joined by a quoted '~', so texts can be re-spliced at '~'.
    Yields (text, family)."""
    def bare(p):
        return p.text
    if kind in ("datetime", "instant"):
        dparts = [p.text for p in custom_patterns("date", 1)] + ["uuuu'-'MM'-'dd", "d/M/yyyy", "yyyy MM dd gg"]
        tparts = [p.text for p in custom_patterns("time", 1)] + ["HH':'mm':'ss", "h:mm tt", "HH:mm:ss.FFF"]
        dtokens = [tok for _, toks in FIELDS["date"] for tok in toks]
        ttokens = [tok for _, toks in FIELDS["time"] for tok in toks]
        for emb, parts, tokens in (("ld", dparts, dtokens), ("lt", tparts, ttokens)):
            for part in parts:
                for tok in tokens:
                    yield "%s<%s>'~'%s" % (emb, part, tok), "embedded-then-field"
                    yield "%s'~'%s<%s>" % (tok, emb, part), "field-then-embedded"
        for part in ("uuuu'-'MM'-'dd'T'HH':'mm':'ss", "uuuu-MM-dd HH:mm", "%d"):
            yield "l<%s>" % part, "l-embedding"
            yield "l<%s>'~'HH" % part, "l-embedding"
            yield "dd'~'l<%s>" % part, "l-embedding"
        yield "ld<uuuu'-'MM'-'dd>'~'ld<uuuu'-'MM'-'dd>", "embedded-twice"
        yield "lt<HH':'mm>'~'lt<HH':'mm>", "embedded-twice"
        yield "ld<lt<HH>>'~'mm", "embedded-wrong-kind"
        yield "lt<ld<dd>>'~'MM", "embedded-wrong-kind"
    for name, toks in FIELDS[kind]:
        for a in toks:
            for b in toks:
                ta, tb = a, b
                yield "%s'~'%s" % (ta, tb), "repeated-field"
    if kind == "duration":
        for a, b in (("H", "h"), ("hh", "H"), ("M", "m"), ("mm", "MM"), ("S", "s"), ("ss", "S"), ("D", "H"), ("H", "M"), ("S", "D"), ("M", "S")):
            yield "%s'~'%s" % (a, b), "repeated-field"


# --- literals made of format-string metacharacters (C08) ----------------------------------------------------------

# pattern-text spellings of literals consisting of characters that str.format / % formatting / regex substitution treat
# specially: quoted, backslash-escaped, and bare where the pattern language allows a bare non-letter literal
META_LITERALS = ("'{'", "'}'", "'{0}'", "'{}'", "'{x}'", "'%s'", "'%'", "'%(a)s'", "\\{", "\\}", "\\%", "\\\\", "{", "}", "{0}", "{}", "'$1'",
                 '"{"', '"}"')


def metachar_patterns(kind: str, per_pattern: int = 3):
    """Well-formed patterns whose literals are format-string metacharacters.  Every FIXED shape wrapped in every
    literal (literal + pattern + literal), and every two-field quoted-delimiter pattern with its '~' replaced by
    `per_pattern` of the literals (round robin over the pattern index, so all literals occur with all field pairs of
    some width).  Yields Pat with delim = 'meta'."""
    for text, names in FIXED[kind]:
        fp = next(p for p in fixed_patterns(kind) if p.text == text)
        for lit in META_LITERALS:
            yield Pat(kind, lit + text + lit, fp.fields, "meta")
    idx = 0
    for p in custom_patterns(kind, 2, 2, 99):
        if p.delim != "q":
            continue
        for j in range(per_pattern):
            lit = META_LITERALS[(idx * per_pattern + j) % len(META_LITERALS)]
            yield Pat(kind, p.text.replace("'~'", lit), p.fields, "meta")
        idx += 1


# --- embedded patterns whose text is a STANDARD pattern letter ------------------------------------------------------

# fields of the culture-invariant standard letters (the others expand per culture: fields unknown here -> ())
_STD_DATE_FIELDS = {"R": (("year", "uuuu"), ("mnum", "MM"), ("day", "dd")), "r": (("year", "uuuu"), ("mnum", "MM"), ("day", "dd"), ("cal", "c"))}
_STD_TIME_FIELDS = {"o": (("H24", "HH"), ("min", "mm"), ("sec", "ss"), ("frac", ";FFFFFFFFF")),
                    "O": (("H24", "HH"), ("min", "mm"), ("sec", "ss"), ("frac", ";fffffffff"))}
_ISO_DATE = (("year", "uuuu"), ("mnum", "MM"), ("day", "dd"))
_ISO_HM = (("H24", "HH"), ("min", "mm"))


def embedded_standard(kind: str):
    """LocalDateTime / Instant patterns whose embedded ld<...> / lt<...> text is a single standard pattern letter of the
    embedded type (every letter of STANDARD['date'] / STANDARD['time']), combined with each other and with plain
    fields.  delim = 'emb-std'; fields = () when a culture-dependent letter hides them."""
    if kind not in ("datetime", "instant"):
        return
    z = "'Z'" if kind == "instant" else ""
    for dl in STANDARD["date"]:
        df = _STD_DATE_FIELDS.get(dl)
        for tl in STANDARD["time"]:
            tf = _STD_TIME_FIELDS.get(tl)
            both = (df + tf) if (df and tf) else ()
            yield Pat(kind, "ld<%s>'T'lt<%s>%s" % (dl, tl, z), both, "emb-std")
            yield Pat(kind, "lt<%s>'~'ld<%s>%s" % (tl, dl, z), (tf + df) if both else (), "emb-std")
        yield Pat(kind, "ld<%s>' 'HH':'mm%s" % (dl, z), (df + _ISO_HM) if df else (), "emb-std")
    for tl in STANDARD["time"]:
        tf = _STD_TIME_FIELDS.get(tl)
        yield Pat(kind, "uuuu'-'MM'-'dd'T'lt<%s>%s" % (tl, z), (_ISO_DATE + tf) if tf else (), "emb-std")
