"""One controlled two-thread execution in a FRESH interpreter: first use of lazily initialised library state.

In-process exploration cannot see first-use races of module-level lazies it does not know how to reset; here every
execution starts from a new process (all pyoda_time modules imported, nothing used), replays a schedule prefix and
prints the trace as JSON.  Driven by c13's explore_fresh().

usage: python -m vf.core.firstuse <entry> <granularity: line|opcode> <prefix as JSON list>
"""
from __future__ import annotations

import json
import sys


def entries():
    from pyoda_time import CalendarSystem, DateTimeZone, DateTimeZoneProviders, Instant, IsoDayOfWeek, LocalDate, LocalDateTime, Offset
    from pyoda_time.calendars import WeekYearRules
    from pyoda_time.text import InstantPattern, LocalDatePattern, LocalDateTimePattern, OffsetPattern
    d = LocalDate(2020, 12, 31)
    e = {}
    e["weekyear-rules"] = (lambda: (WeekYearRules.for_min_days_in_first_week(1, IsoDayOfWeek.SUNDAY).get_week_year(d), WeekYearRules.iso.get_week_of_week_year(d)),
                           lambda: repr(LocalDate.from_week_year_week_and_day(2020, 53, IsoDayOfWeek.THURSDAY)))
    e["calendar-hebrew"] = (lambda: CalendarSystem.hebrew_civil.id, lambda: CalendarSystem.get_hebrew_calendar(__import__("pyoda_time").calendars.HebrewMonthNumbering.CIVIL).id)
    e["calendar-islamic"] = (lambda: CalendarSystem.islamic_bcl.id, lambda: CalendarSystem.for_id("Hijri Civil-Base16").id)
    e["tzdb-provider"] = (lambda: DateTimeZoneProviders.tzdb["Europe/Paris"].id, lambda: DateTimeZoneProviders.tzdb.get_zone_or_none("Europe/Paris").id)
    e["fixed-zones"] = (lambda: DateTimeZone.for_offset(Offset.from_hours(2)).id, lambda: (DateTimeZone.utc.id, DateTimeZone.for_offset(Offset.from_hours(-5)).id))
    e["iso-patterns"] = (lambda: LocalDatePattern.iso.format(d), lambda: LocalDateTimePattern.extended_iso.format(LocalDateTime(2020, 1, 2, 3, 4, 5)))
    e["instant-repr"] = (lambda: repr(Instant.from_unix_time_seconds(86400)), lambda: InstantPattern.general.format(Instant.from_unix_time_seconds(0)))
    e["offset-patterns"] = (lambda: OffsetPattern.general_invariant.format(Offset.from_hours(5)), lambda: repr(Offset.from_seconds(-3723)))
    from pyoda_time import DateAdjusters
    d2 = LocalDate(2024, 2, 28)
    e["date-adjusters"] = (lambda: (repr(DateAdjusters.next(IsoDayOfWeek.TUESDAY)(d2)), repr(DateAdjusters.previous(IsoDayOfWeek.FRIDAY)(d2)), repr(DateAdjusters.end_of_month(d2)),
                                    repr(DateAdjusters.next_or_same(IsoDayOfWeek.WEDNESDAY)(d2))),
                           lambda: (repr(DateAdjusters.next(IsoDayOfWeek.WEDNESDAY)(d2)), repr(DateAdjusters.previous(IsoDayOfWeek.SUNDAY)(d2)), repr(DateAdjusters.start_of_month(d2)),
                                    repr(DateAdjusters.day_of_month(15)(d2)), repr(DateAdjusters.previous_or_same(IsoDayOfWeek.MONDAY)(d2))))
    from pyoda_time import LocalTime, OffsetDateTime, Period
    ldt0 = LocalDateTime(2020, 1, 1, 0, 0, 0)
    e["time-unit-arithmetic"] = (lambda: (repr(ldt0 + Period.from_hours(25) + Period.from_minutes(3)), repr(ldt0.plus_seconds(86399).plus_nanoseconds(10**9)), repr(LocalTime(23, 59).plus_minutes(2))),
                                 lambda: (repr(ldt0.plus_hours(1)), repr(ldt0.plus_milliseconds(-1)), repr(ldt0.plus_ticks(7)), repr(LocalTime(0, 0).plus_hours(-1))))

    def _aware(h, m=0):
        return repr(OffsetDateTime(LocalDateTime(2024, 5, 6, 7, 8, 9), Offset.from_hours_and_minutes(h, m)).to_aware_datetime())
    e["stdlib-bridges"] = (lambda: (_aware(-5), _aware(5, 30), repr(LocalDate(2024, 2, 29).to_date()), repr(Instant.from_unix_time_seconds(1).to_datetime_utc())),
                           lambda: (_aware(9), _aware(-9, -30), _aware(0), repr(LocalDateTime(2024, 2, 29, 1, 2, 3).to_naive_datetime())))
    e["text-format-parse"] = (lambda: (LocalDateTimePattern.extended_iso.format(LocalDateTime(2024, 2, 29, 12, 34, 56)), repr(LocalDatePattern.iso.parse("2023-11-30").value),
                                       repr(LocalDateTimePattern.extended_iso.parse("2024-02-29T12:34:56.25").value)),
                              lambda: (LocalDatePattern.iso.format(LocalDate(2023, 11, 30)), InstantPattern.extended_iso.format(Instant.from_unix_time_seconds(86400 * 365)),
                                       repr(OffsetPattern.general_invariant.parse("+05:30").value)))
    return e


FILES = {
    "text-format-parse": ("_local_date_pattern.py", "_local_date_time_pattern.py"),
    "time-unit-arithmetic": ("_time_period_field.py", "_local_date_time.py::plus|plus_hours|plus_minutes|plus_seconds|plus_milliseconds|plus_ticks|plus_nanoseconds", "_local_time.py::plus_hours|plus_minutes"),
    "stdlib-bridges": ("_offset_date_time.py::to_aware_datetime", "_local_date.py::to_date", "_instant.py::to_datetime_utc", "_local_date_time.py::to_naive_datetime"),
    "date-adjusters": ("_date_adjusters.py",),
    "weekyear-rules": ("_week_year_rules.py", "_simple_week_year_rule.py"),
    "calendar-hebrew": ("_calendar_system.py",),
    "calendar-islamic": ("_calendar_system.py",),
    "tzdb-provider": ("_date_time_zone_providers.py", "_date_time_zone_cache.py"),
    "fixed-zones": ("_date_time_zone.py",),
    "iso-patterns": ("_local_date_pattern.py", "_local_date_time_pattern.py"),
    "instant-repr": ("_instant_pattern.py", "_instant.py::__repr__|__str__|__format__"),
    "offset-patterns": ("_offset_pattern.py", "_offset.py::__repr__|__str__|__format__"),
}


def _container_snapshot():
    """sizes of every module-level and class-level list/dict/set/bytearray of the pyoda_time modules (name -> (file, len))"""
    import sys as _sys
    snap = {}
    for mname, mod in list(_sys.modules.items()):
        if not mname.startswith("pyoda_time") or mod is None:
            continue
        fn = getattr(mod, "__file__", None) or ""
        holders = [(mname, mod)]
        for k, v in list(vars(mod).items()):
            if isinstance(v, type) and getattr(v, "__module__", None) == mname:
                holders.append((mname + "." + k, v))
                for k2, v2 in list(vars(v).items()):       # one level of nested classes (metaclass-style helpers)
                    if isinstance(v2, type):
                        holders.append((mname + "." + k + "." + k2, v2))
        for hname, h in holders:
            try:
                items = list(vars(h).items())
            except TypeError:
                continue
            for k, v in items:
                if isinstance(v, (list, dict, set, bytearray)) and not k.startswith("__annotations__") and k not in ("__all__", "__path__"):
                    snap[hname + "." + k] = (fn, len(v), id(v))
                elif v is None or isinstance(v, (int, str, bool)):
                    pass
    return snap


def discover(name):
    """which pyoda_time source files own module/class-level containers that are filled when the entry's two bodies run for the first
    time (lazily built tables, registries, memo dicts): those files are scheduling points of the first-use exploration"""
    import os
    a, b = entries()[name]
    before = _container_snapshot()
    a()
    b()
    after = _container_snapshot()
    changed = {}
    for k, (fn, n, i) in after.items():
        if k not in before or before[k][1] != n or before[k][2] != i:
            changed[k] = os.path.basename(fn)
    return changed


def main(argv):
    name, gran, prefix = argv[0], argv[1], json.loads(argv[2])
    sequential = len(argv) > 3 and argv[3] == "sequential"
    extra_files = tuple(argv[4].split(",")) if len(argv) > 4 and argv[4] else ()
    from vf.core import sched
    sched.install_lock_factory()
    import importlib
    import pkgutil

    import pyoda_time
    for m in pkgutil.walk_packages(pyoda_time.__path__, "pyoda_time."):
        try:
            importlib.import_module(m.name)
        except Exception:  # noqa: BLE001
            pass
    a, b = entries()[name]
    if sequential:
        if len(argv) > 3 and argv[3] == "sequential" and gran == "discover":
            print(json.dumps({"lazy_containers": discover(name)}))
            return 0
        print(json.dumps({"expected": [repr(a()), repr(b())]}))
        return 0
    s = sched.Sched([a, b], prefix, tuple(FILES[name]) + tuple(f for f in extra_files if f not in FILES[name]), gran == "opcode")
    try:
        s.run()
    except sched.ReplayDivergence as e:
        print(json.dumps({"divergence": str(e)}))
        return 0
    out = {"status": s.status, "trace": s.trace, "results": [repr(r) for r in s.results],
           "errors": [None if (e is None or isinstance(e, sched.Abort)) else "%s: %s" % (type(e).__name__, str(e)[:200]) for e in s.errors]}
    print(json.dumps(out))
    return 0


if __name__ == "__main__":
    sys.exit(main(sys.argv[1:]))
