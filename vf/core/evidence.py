"""Evidence accumulation, violation reporting, known findings, replay artefacts.

Acc  : picklable accumulator used inside worker processes (counters, outcomes, samples, violations).
Ctx  : the per-run context owned by the main process; merges Accs, writes evidence/<id>.json,
       prints KNOWN-FINDING / VIOLATION lines and decides the exit code.
"""
from __future__ import annotations

import fnmatch
import hashlib
import json
import os
import sys
import time
import traceback

HOME = os.environ.get("VERIF_HOME", os.path.dirname(os.path.dirname(os.path.dirname(os.path.abspath(__file__)))))
OUT = os.environ.get("VERIF_OUT") or HOME    # evidence/ and replays/ land here (scratch runs against mutants set VERIF_OUT)
MAX_KEYS = 400          # distinct violation keys kept per accumulator
MAX_SAMPLES = 12


def jsonable(x, depth=0):
    if depth > 6:
        return repr(x)
    if x is None or isinstance(x, (bool, int, str)):
        return x
    if isinstance(x, float):
        return x if x == x and abs(x) != float("inf") else repr(x)
    if isinstance(x, (bytes, bytearray)):
        return "hex:" + bytes(x).hex()
    if isinstance(x, dict):
        return {str(k): jsonable(v, depth + 1) for k, v in x.items()}
    if isinstance(x, (list, tuple, set, frozenset)):
        return [jsonable(v, depth + 1) for v in (sorted(x, key=repr) if isinstance(x, (set, frozenset)) else x)]
    return repr(x)


def exc_origin(e: BaseException) -> str:
    """'lib' when the innermost frame of the traceback is library code, 'harness' when it is ours."""
    tb = e.__traceback__
    origin = "harness"
    while tb is not None:
        fn = tb.tb_frame.f_code.co_filename.replace("\\", "/")
        if "/pyoda_time/" in fn:
            origin = "lib"
        elif "/vf/" in fn:
            origin = "harness"
        tb = tb.tb_next
    return origin


def exc_site(e: BaseException) -> str:
    """innermost pyoda_time function of the traceback, as 'file.py:func'."""
    tb = e.__traceback__
    site = "?"
    while tb is not None:
        fn = tb.tb_frame.f_code.co_filename.replace("\\", "/")
        if "/pyoda_time/" in fn:
            site = "%s:%s" % (os.path.basename(fn), tb.tb_frame.f_code.co_name)
        tb = tb.tb_next
    return site


class Acc:
    """Picklable accumulator.  All counts are measured, never constants."""

    def __init__(self):
        self.states = 0
        self.transitions = 0
        self.evaluations = 0
        self.nontrivial = 0
        self.outcomes = {}
        self.samples = []
        self.violations = {}      # key -> (what, case, py)
        self.more_violations = 0
        self.caps = []
        self.degraded = []
        self.notes = {}

    def count(self, states=0, transitions=0, evaluations=0, nontrivial=0):
        self.states += states
        self.transitions += transitions
        self.evaluations += evaluations
        self.nontrivial += nontrivial

    def outcome(self, label, n=1):
        label = label if isinstance(label, str) else repr(label)
        self.outcomes[label] = self.outcomes.get(label, 0) + n

    def sample(self, s):
        if len(self.samples) < MAX_SAMPLES:
            self.samples.append(jsonable(s))

    def violation(self, key, what, case=None, py=None):
        if key in self.violations:
            return
        if len(self.violations) >= MAX_KEYS:
            self.more_violations += 1
            return
        self.violations[key] = (str(what)[:2000], jsonable(case), py)

    def lib_exception(self, keyprefix, e, case=None):
        """Record an unexpected exception raised by library code as a violation; re-raise harness faults."""
        if exc_origin(e) == "harness":
            raise e
        self.violation("%s/unexpected-%s/%s" % (keyprefix, type(e).__name__, exc_site(e)),
                       "unexpected %s: %s" % (type(e).__name__, str(e)[:300]),
                       {"case": jsonable(case), "traceback": traceback.format_exception(e)[-6:]})

    def cap(self, text):
        if text not in self.caps:
            self.caps.append(text)

    def degrade(self, text):
        if text not in self.degraded:
            self.degraded.append(text)

    def note(self, k, v):
        self.notes[k] = jsonable(v)

    def merge(self, other: "Acc"):
        self.states += other.states
        self.transitions += other.transitions
        self.evaluations += other.evaluations
        self.nontrivial += other.nontrivial
        for k, v in other.outcomes.items():
            self.outcomes[k] = self.outcomes.get(k, 0) + v
        for s in other.samples:
            if len(self.samples) < MAX_SAMPLES:
                self.samples.append(s)
        for k, v in other.violations.items():
            if k not in self.violations:
                if len(self.violations) >= MAX_KEYS:
                    self.more_violations += 1
                else:
                    self.violations[k] = v
        self.more_violations += other.more_violations
        for c in other.caps:
            self.cap(c)
        for c in other.degraded:
            self.degrade(c)
        self.notes.update(other.notes)
        return self


def load_known(pid):
    path = os.path.join(HOME, "known_findings.json")
    try:
        with open(path) as f:
            data = json.load(f)
    except FileNotFoundError:
        return []
    return [e for e in data.get("findings", []) if e.get("property") == pid and e.get("status") == "known"]


class Ctx(Acc):
    def __init__(self, pid, tier, seed, level="model_checking"):
        super().__init__()
        self.pid = pid
        self.tier = tier
        self.seed = seed
        self.level = level
        self.t0 = time.time()
        self.parts = {}
        self.rule = ""
        self.assumptions = []
        self.exhaustive = False
        self.procs = int(os.environ.get("VERIF_PROCS", "0") or 0) or min(16, os.cpu_count() or 1)

    # -- parts: a named sub-check with its own counters, merged into the totals
    def merge_part(self, name, acc: Acc):
        p = self.parts.setdefault(name, {"states": 0, "transitions": 0, "evaluations": 0, "nontrivial": 0,
                                         "distinct_outcomes": 0, "violation_keys": 0})
        p["states"] += acc.states
        p["transitions"] += acc.transitions
        p["evaluations"] += acc.evaluations
        p["nontrivial"] += acc.nontrivial
        p["_out"] = p.get("_out", set()) | set(acc.outcomes)
        p["distinct_outcomes"] = len(p["_out"])
        p["violation_keys"] += len(acc.violations)
        if acc.notes:
            p.setdefault("notes", {}).update(acc.notes)
        self.merge(acc)

    def elapsed(self):
        return time.time() - self.t0

    def finish(self) -> int:
        known = load_known(self.pid)
        hit = {}
        unlisted = []
        for key, (what, case, py) in sorted(self.violations.items()):
            m = None
            for e in known:
                if fnmatch.fnmatchcase(key, e["key"]):
                    m = e
                    break
            if m is not None:
                hit.setdefault(m["key"], (m, []))[1].append(key)
            else:
                unlisted.append((key, what, case, py))
        for k, (e, keys) in hit.items():
            print("KNOWN-FINDING: property=%s %s %s (%d symptom key(s) this run)" % (self.pid, e["key"], e.get("what", ""), len(keys)))
        rdir = os.path.join(OUT, "replays")
        shown = 0
        for key, what, case, py in unlisted:
            h = hashlib.sha1(key.encode()).hexdigest()[:10]
            os.makedirs(rdir, exist_ok=True)
            path = os.path.join(rdir, "%s-%s.json" % (self.pid, h))
            with open(path, "w") as f:
                json.dump({"property": self.pid, "key": key, "what": what, "case": case, "tier": self.tier,
                           "seed": self.seed}, f, indent=1, ensure_ascii=False)
            if py:
                with open(os.path.join(rdir, "test_%s_%s.py" % (self.pid, h)), "w") as f:
                    f.write("# standalone reproduction of %s (%s)\n# run: LD_LIBRARY_PATH=<icu> /venv/bin/python -m pytest %s\n%s\n" % (
                        key, what.replace("\n", " ")[:200], "replays/test_%s_%s.py" % (self.pid, h), py))
            if shown < 15:
                print("VIOLATION property=%s replay=%s" % (self.pid, path))
                print("    detail: %s :: %s" % (key, what.replace("\n", " ")[:300]))
                shown += 1
        if len(unlisted) > shown or self.more_violations:
            print("... %d further violation keys not shown" % (len(unlisted) - shown + self.more_violations))
        overflow = self.more_violations > 0 and not unlisted
        if overflow:
            # keys beyond the stored ones could not be matched against known findings: never let them hide
            os.makedirs(rdir, exist_ok=True)
            path = os.path.join(rdir, "%s-overflow.json" % self.pid)
            with open(path, "w") as f:
                json.dump({"property": self.pid, "key": "%s/overflow" % self.pid,
                           "what": "%d violation keys beyond the %d stored ones were not classified" % (self.more_violations, MAX_KEYS)}, f)
            print("VIOLATION property=%s replay=%s" % (self.pid, path))
        self.write_evidence(len(unlisted) + (1 if overflow else 0), len(hit))
        return 1 if (unlisted or overflow) else 0

    def write_evidence(self, n_viol, n_known):
        parts = {}
        for k, p in self.parts.items():
            parts[k] = {a: b for a, b in p.items() if a != "_out"}
        cov = {
            "states": self.states,
            "transitions": self.transitions,
            "traces_validated_against_impl": self.evaluations,
            "evaluations": self.evaluations,
            "distinct_nontrivial": self.nontrivial,
            "rule": self.rule,
            "samples": self.samples[:MAX_SAMPLES] or ["<no samples recorded>"],
            "exhaustive": bool(self.exhaustive),
            "distinct_outcomes": len(self.outcomes),
            "outcomes": dict(sorted(self.outcomes.items(), key=lambda kv: -kv[1])[:40]),
            "parts": parts,
            "caps_hit": self.caps,
            "degraded": self.degraded,
            "known_findings_seen": n_known,
            "explanation": "every execution drives the real pyoda_time code imported from the working tree; "
                           "traces_validated_against_impl therefore equals executions run",
        }
        if self.notes:
            cov["notes"] = self.notes
        ev = {
            "property_id": self.pid,
            "tier": self.tier,
            "seed": self.seed,
            "level": self.level,
            "coverage": cov,
            "assumptions": self.assumptions,
            "wall_s": round(self.elapsed(), 2),
            "violations": n_viol,
        }
        edir = os.path.join(OUT, "evidence")
        os.makedirs(edir, exist_ok=True)
        tmp = os.path.join(edir, ".%s.json.tmp" % self.pid)
        with open(tmp, "w") as f:
            json.dump(ev, f, indent=1, ensure_ascii=False)
        os.replace(tmp, os.path.join(edir, "%s.json" % self.pid))
