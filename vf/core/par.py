"""Deterministic sharded execution: fork workers after the library is imported, ordered results."""
from __future__ import annotations

import multiprocessing as mp
import os
import traceback


def nprocs():
    return int(os.environ.get("VERIF_PROCS", "0") or 0) or min(16, os.cpu_count() or 1)


class LibAbort(Exception):
    """library code raised inside a worker where the check did not expect it; carries an Acc with the violation"""

    def __init__(self, acc):
        super().__init__("library raised inside a worker shard")
        self.acc = acc


class _Guard:
    """runs fn(item) in the worker; an exception is classified there (tracebacks do not survive pickling)"""

    def __init__(self, fn):
        self.fn = fn

    def __call__(self, item):
        try:
            return ("ok", self.fn(item))
        except Exception as e:  # noqa: BLE001
            from vf.core.evidence import exc_origin, exc_site
            return ("exc", exc_origin(e), exc_site(e), type(e).__name__, str(e)[:300], "".join(traceback.format_exception(e))[-3000:], repr(item)[:300])


def _unwrap(r):
    if r[0] == "ok":
        return r[1]
    _, origin, site, tname, msg, tb, item = r
    if origin == "lib":
        # the library raised where the worker did not expect it: a behaviour change, reported as a violation
        from vf.core.evidence import Acc
        acc = Acc()
        acc.violation("worker-aborted/%s/%s" % (tname, site), "library raised %s in a worker shard (%s): %s" % (tname, item, msg), {"traceback": tb[-1500:], "shard": item})
        raise LibAbort(acc)
    raise RuntimeError("harness fault in worker shard %s: %s: %s\n%s" % (item, tname, msg, tb))


def pmap(fn, items, procs=None, chunksize=1):
    """Ordered parallel map over picklable items; fn is a module-level function returning an Acc."""
    items = list(items)
    procs = procs or nprocs()
    g = _Guard(fn)
    if procs <= 1 or len(items) <= 1:
        for it in items:
            yield _unwrap(g(it))
        return
    ctx = mp.get_context("fork")
    with ctx.Pool(min(procs, len(items))) as pool:
        for r in pool.imap(g, items, chunksize):
            yield _unwrap(r)


def chunks(lo, hi, size):
    """[lo, hi) split into contiguous (a, b) ranges of at most size elements."""
    a = lo
    while a < hi:
        b = min(hi, a + size)
        yield (a, b)
        a = b
