"""Deterministic sharded execution: fork workers after the library is imported, ordered results."""
from __future__ import annotations

import multiprocessing as mp
import os


def nprocs():
    return int(os.environ.get("VERIF_PROCS", "0") or 0) or min(16, os.cpu_count() or 1)


def pmap(fn, items, procs=None, chunksize=1):
    """Ordered parallel map over picklable items; fn is a module-level function returning an Acc (or anything picklable)."""
    items = list(items)
    procs = procs or nprocs()
    if procs <= 1 or len(items) <= 1:
        for it in items:
            yield fn(it)
        return
    ctx = mp.get_context("fork")
    with ctx.Pool(min(procs, len(items))) as pool:
        for r in pool.imap(fn, items, chunksize):
            yield r


def chunks(lo, hi, size):
    """[lo, hi) split into contiguous (a, b) ranges of at most size elements."""
    a = lo
    while a < hi:
        b = min(hi, a + size)
        yield (a, b)
        a = b
