#!/bin/bash
# tools/refacrun.sh <patch.diff> [CNN ...] : apply a behaviour-preserving change to a scratch copy of /repo and run the quick
# checks of every property anchored in a touched file (or the given ones).  Every check must stay SILENT (exit 0).
PATCH="$(readlink -f "$1")"; shift
T="$(mktemp -d /tmp/rf.XXXXXX)"; trap 'rm -rf "$T"' EXIT
rsync -a --exclude .git --exclude __pycache__ /repo/ "$T/repo/"
if ! (cd "$T/repo" && patch -p1 -s --no-backup-if-mismatch < "$PATCH"); then echo "PATCH-FAILED $PATCH"; exit 2; fi
if [ $# -gt 0 ]; then PIDS="$*"; else
PIDS="$(python3 - "$PATCH" <<'PY'
import json,re,sys
files=set(re.findall(r'^\+\+\+ b/(\S+)', open(sys.argv[1]).read(), re.M))
out=[]
for l in open('/verif/properties.jsonl'):
    p=json.loads(l)
    if files & set(p['anchors']['files']): out.append(p['id'])
print(' '.join(out))
PY
)"; fi
for pid in $PIDS; do
  mkdir -p "$T/out"
  VERIF_REPO="$T/repo" VERIF_OUT="$T/out" /verif/run "$pid" --tier quick > "$T/log" 2>&1; rc=$?
  case $rc in 0) v=SILENT;; 1) v=ALARM;; *) v="FAULT(rc=$rc)";; esac
  echo "$(basename "$(dirname "$PATCH")")/$(basename "$(dirname "$(dirname "$PATCH")")") | $pid | $v | $(grep -E "detail:|HARNESS|Error" "$T/log" | head -2 | cut -c1-200 | tr '\n' ' ')"
done
