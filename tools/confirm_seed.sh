#!/bin/bash
# tools/confirm_seed.sh <CNN> <k> [source root=/tmp/seed] [name in seeded/ = k] : independently confirm a seeded change from /tmp/seed/<CNN>/<k> in a scratch worktree of
# /repo HEAD: (1) patch applies, (2) full ICU suite and pinned baseline still pass, (3) demo fails with / passes without.
# On success copies it to /verif/seeded/<CNN>-<k>/ with the confirmation log in meta.json ("confirmed" block).
PID="$1"; K="$2"; ROOT="${3:-/tmp/seed}"; DK="${4:-$K}"; SRC="$ROOT/$PID/$K"; ICU=/root/miniconda/pkgs/icu-73.1-h6a678d5_0/lib
WT="$(mktemp -d /tmp/cs.XXXXXX)"; rmdir "$WT"
git -C /repo worktree add --detach "$WT" HEAD >/dev/null 2>&1 || { echo "worktree failed"; exit 2; }
cleanup() { git -C /repo worktree remove --force "$WT" >/dev/null 2>&1; rm -rf "$WT"; }
trap cleanup EXIT
cd "$WT"
PYTHONPATH="$WT" LD_LIBRARY_PATH=$ICU /venv/bin/python "$SRC/demo.py" > /tmp/cs_$PID$K.clean.log 2>&1; clean_rc=$?
if ! git apply "$SRC/patch.diff" 2>/dev/null; then
  if ! patch -p1 -s --no-backup-if-mismatch < "$SRC/patch.diff"; then echo "SEED $PID/$K: PATCH DOES NOT APPLY to HEAD"; exit 1; fi
fi
PYTHONPATH="$WT" LD_LIBRARY_PATH=$ICU /venv/bin/python "$SRC/demo.py" > /tmp/cs_$PID$K.mut.log 2>&1; mut_rc=$?
full="$(LD_LIBRARY_PATH=$ICU /venv/bin/python -m pytest -q -p no:cacheprovider -n 6 2>&1 | tail -1)"
base="$(/venv/bin/python -m pytest -q -p no:cacheprovider --continue-on-collection-errors 2>&1 | tail -1)"
echo "SEED $PID/$K: demo clean rc=$clean_rc, demo mutated rc=$mut_rc; full: $full; baseline: $base"
ok=1
[ "$clean_rc" = 0 ] || ok=0; [ "$mut_rc" != 0 ] || ok=0
echo "$full" | grep -Eq "[0-9] (failed|error)" && ok=0
echo "$full" | grep -Eq "(10356|10256) passed" || ok=0   # 10256 since /repo e74500c (neutral c-cultures are no longer enumerated as specific ones)
echo "$base" | grep -q "393 passed" || ok=0
if [ $ok = 1 ]; then
  D="/verif/seeded/$PID-$DK"; mkdir -p "$D"; cp "$SRC/patch.diff" "$SRC/demo.py" "$D/"
  python3 - "$SRC/meta.json" "$D/meta.json" "$clean_rc" "$mut_rc" "$full" "$base" "$(git -C /repo rev-parse --short HEAD)" <<'PY'
import json,sys
src,dst,c,m,full,base,head=sys.argv[1:]
try: meta=json.load(open(src))
except Exception as e: meta={"note":"agent meta.json unreadable: %s"%e}
meta["confirmed"]={"at_repo_head":head,"demo_rc_clean":int(c),"demo_rc_with_change":int(m),"full_icu_suite_with_change":full,"pinned_baseline_with_change":base,
 "how":"tools/confirm_seed.sh in a scratch git worktree of /repo HEAD (removed afterwards)"}
json.dump(meta,open(dst,"w"),indent=1)
PY
  echo "KEPT $D"
else
  echo "REJECTED $PID/$K"; tail -3 /tmp/cs_$PID$K.clean.log; exit 1
fi
