#!/bin/bash
# tools/seedrun.sh [CNN-k ...] : run each kept seeded change against its property's quick check; table on stdout
cd /verif
if [ $# -eq 0 ]; then set -- $(ls seeded); fi
for d in "$@"; do
  d="$(basename "$d")"; pid="${d%%-*}"
  [ -f "seeded/$d/patch.diff" ] || continue
  ov="$(python3 -c "import json,sys; m=json.load(open('seeded/CAUGHT_BY.json')); v=m.get(sys.argv[1]); print(' '.join(v) if v else '')" "$d" 2>/dev/null)"
  chk="$pid"; tier=quick
  if [ -n "$ov" ]; then chk="${ov%% *}"; tier="${ov##* }"; fi
  # "quick+env": quick exploration plus the environment passes (python -O, ambient decimal context) that the thorough
  # tier always runs - used for seeds that only show in such an environment, to keep the regression run short
  if [ "$chk" = "-" ]; then echo "$d | NOT-COVERED (documented) | ${ov#- }"; continue; fi
  envp=""; if [ "$tier" = "quick+env" ]; then envp=1; tier=quick; fi
  out="$(VERIF_ENV_PASSES=$envp MUT_LINES=3 tools/mutest.sh "seeded/$d/patch.diff" "$chk" "$tier" 2>&1)"
  verdict="$(echo "$out" | grep -E "^(CAUGHT|MISSED|PATCH-FAILED|FAULT)" | head -1)"
  first="$(echo "$out" | grep "detail:" | head -1 | cut -c1-220)"
  echo "$d | ${verdict:-?} | $first"
done
