#!/bin/bash
# tools/mutest.sh <patch.diff> <CNN> [tier]  - run one check against a scratch copy of /repo with the patch applied.
# Exit status: 0 = the check reported a VIOLATION (mutant caught), 1 = missed, 2 = patch did not apply / harness fault.
PATCH="$(readlink -f "$1")"; PID="$2"; TIER="${3:-quick}"
T="$(mktemp -d /tmp/mut.XXXXXX)"
trap 'rm -rf "$T"' EXIT
rsync -a --exclude .git --exclude __pycache__ /repo/ "$T/repo/"
if ! (cd "$T/repo" && patch -p1 -s --no-backup-if-mismatch < "$PATCH"); then echo "PATCH-FAILED $PATCH"; exit 2; fi
mkdir -p "$T/out"
VERIF_REPO="$T/repo" VERIF_OUT="$T/out" /verif/run "$PID" --tier "$TIER" > "$T/log" 2>&1
rc=$?
grep -E "^VIOLATION|^    detail|^KNOWN|HARNESS|tier=" "$T/log" | head -${MUT_LINES:-8}
if [ $rc -eq 1 ]; then echo "CAUGHT $PID $(basename "$(dirname "$PATCH")")/$(basename "$PATCH")"; exit 0; fi
if [ $rc -eq 0 ]; then echo "MISSED $PID $PATCH"; exit 1; fi
tail -5 "$T/log"; echo "FAULT rc=$rc"; exit 2
