#!/usr/bin/env python3
"""Prints a markdown table of what the committed evidence files (quick tier, on /repo) say each check covered."""
import glob, json, os
HERE = os.path.dirname(os.path.dirname(os.path.abspath(__file__)))
print("| prop | tier | states | transitions | executions | distinct non-trivial | outcomes | parts | caps | violations | wall s |")
print("|---|---|---|---|---|---|---|---|---|---|---|")
for f in sorted(glob.glob(os.path.join(HERE, "evidence", "C*.json"))):
    e = json.load(open(f)); c = e["coverage"]
    print("| %s | %s | %s | %s | %s | %s | %d | %d | %d | %s | %.0f |" % (
        e["property_id"], e["tier"], f"{c.get('states',0):,}", f"{c.get('transitions',0):,}", f"{c.get('evaluations',0):,}", f"{c.get('distinct_nontrivial',0):,}",
        c.get("distinct_outcomes", 0), len(c.get("parts", {})), len(c.get("caps_hit", [])), e.get("violations", 0), e.get("wall_s", 0)))
