#!/bin/bash
# tools/final_refresh.sh : run every quick check on /repo (seed 0) writing /verif/evidence/*.json, validate each evidence file
cd /verif
for i in 12 14 18 03 16 10 15 11 17 09 06 07 08 04 05 20 02 19 01 13; do
  ./run C$i --tier quick 2>&1 | grep -E "^VIOLATION|^    detail|HARNESS|^KNOWN|tier=" | cut -c1-260
done
python3-vt - <<'PY'
import json, glob, jsonschema
sch = json.load(open('/root/.vp/EVIDENCE.schema.json'))
for f in sorted(glob.glob('/verif/evidence/C*.json')):
    e = json.load(open(f)); jsonschema.validate(e, sch)
    print(f.split('/')[-1], e['tier'], e['seed'], 'violations', e.get('violations'), 'valid')
PY
