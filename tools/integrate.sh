#!/bin/bash
# tools/integrate.sh CNN... : run the quick tier on /repo with seeds 0 and 1, validate the evidence file; one line per run
cd /verif
for pid in "$@"; do
  for seed in 0 1; do
    s=$(date +%s)
    out="$(VERIF_SEED=$seed ./run $pid --tier quick 2>&1)"; rc=$?
    e=$(( $(date +%s) - s ))
    val="$(python3-vt -c "import json,jsonschema; jsonschema.validate(json.load(open('/verif/evidence/$pid.json')), json.load(open('/root/.vp/EVIDENCE.schema.json'))); e=json.load(open('/verif/evidence/$pid.json')); print('evidence-ok seed=%s viol=%s'%(e['seed'],e.get('violations')))" 2>&1 | tail -1)"
    echo "$pid seed=$seed rc=$rc wall=${e}s $val :: $(echo "$out" | grep -E "tier=quick" | cut -c1-200)"
    echo "$out" | grep -E "^VIOLATION|^KNOWN|detail:" | head -6
  done
done
