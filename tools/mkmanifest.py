#!/usr/bin/env python3
"""Regenerates /verif/MANIFEST.json from the table below (single source of truth for claims)."""
import json, os, subprocess
HERE = os.path.dirname(os.path.dirname(os.path.abspath(__file__)))
BASE = "cd /repo && /venv/bin/python -m pytest -ra -q -p no:cacheprovider --timeout=900 --continue-on-collection-errors"
TB = ("CPython 3.12 semantics; the check's own reference model (plain ints / stdlib / independent decoder); "
      "bounds stated in level_claimed.text; ICU 73 shared libraries found by ./run")
CHECKS = {
 "C01": dict(cat="model_checking", tech="exhaustive walk of the calendar transition system (state = calendar x day number) with counted structure invariants",
   text="The calendar is a chain-shaped transition system; every state walked is converted day->date->day, through the public constructor, through ISO and back "
        "(independent ISO date from datetime/civil-from-days), ordered against its predecessor, and month/year structure is counted along the walk. quick: month tables of "
        "every year of all 19 calendars (complete), complete walk of Badi and Um Al Qura, boundary blocks and one seed-positioned 30000-day block per calendar, all "
        "rejection cases per year; thorough: the complete chain of every calendar (about 70.8 M states), exhaustive.", ref="4/C01"),
 "C02": dict(cat="model_checking", tech="exhaustive lock-step sweep against an independent implementation of the published calendar algorithms and datetime.date",
   text="Every year and month of the 16 arithmetic calendar ids is compared with models/calref.py (independent fixed-day formulas: year start, leap flag, length, month starts/ends, "
        "weekday); ISO is compared with datetime.date over all 3,652,059 ordinals in both directions; day-level lock-step walk on boundary blocks + one seed block (quick) or every day (thorough).", ref="4/C02"),
 "C19": dict(cat="model_checking", tech="explicit-state exploration of all operation sequences vs. reference model + preemption-bounded schedule exploration of real threads",
   text="Every FakeClock operation sequence up to depth 3 (quick) / 4 (thorough) over a 26-30 symbol alphabet is replayed on the real object "
        "and compared step by step with a now/auto-advance integer model; every schedule of 2-3 real threads x 1-2 operations within 2 preemptions "
        "(opcode granularity, cooperative ModelLock, deadlock detection) must terminate, give a sequentially explainable outcome and no duplicate reads; "
        "ZonedClock getters x zones x calendars and SystemClock behind a time_ns seam.", ref="4/C19"),
}
NOT_YET = "check not built yet in this session (planned, see DESIGN.md section 4)"
def main():
    props = [json.loads(l) for l in open(os.path.join(HERE, "properties.jsonl"))]
    checks, na = [], []
    for p in props:
        pid = p["id"]
        c = CHECKS.get(pid)
        if not c or not os.path.exists(os.path.join(HERE, "vf", "checks", pid.lower() + ".py")):
            na.append({"property_id": pid, "reason": (c or {}).get("na", NOT_YET)})
            continue
        checks.append({
            "property_id": pid,
            "quick_cmd": "./run %s --tier quick" % pid,
            "thorough_cmd": "./run %s --tier thorough" % pid,
            "evidence_file": "evidence/%s.json" % pid,
            "replay_cmd_template": "./run %s --replay {path}" % pid,
            "engine": c.get("engine", "vf"),
            "level_claimed": {"category": c["cat"], "text": c["text"], "design_ref": "DESIGN.md " + c["ref"]},
            "level_note": c.get("note", TB),
            "technique": c["tech"],
        })
    hooks = []
    m = {
        "version": 1,
        "setup_cmd": "chmod +x ./run && ./run selfcheck",
        "hooks": {"guard": "PYODA_TIME_VERIF", "enable": "no source hooks are needed: checks import /repo's working tree directly through ./run (sets PYODA_TIME_VERIF=1, unused by the library)",
                  "baseline_off_cmd": BASE, "source_commits": hooks, "add_only": True},
        "engines": [
            {"name": "vf", "path": "vf/", "serves_properties": [c["property_id"] for c in checks],
             "kind_free_text": "hand-written explicit-state explorers driving the real Python code: exhaustive sweeps, lock-step BFS against reference models, preemption-bounded thread scheduler (sys.settrace + cooperative locks), byte-stream fault enumerator"}],
        "checks": checks,
        "not_applicable": na,
        "notes": "All checks run the implementation imported from /repo's working tree (VERIF_REPO overrides). Known findings: known_findings.json. See DESIGN.md.",
    }
    with open(os.path.join(HERE, "MANIFEST.json"), "w") as f:
        json.dump(m, f, indent=1)
    print("claimed:", [c["property_id"] for c in checks], "not_applicable:", len(na))
if __name__ == "__main__":
    main()
