#!/usr/bin/env python3
"""Regenerates /verif/MANIFEST.json from the table below (single source of truth for claims)."""
import json, os, subprocess
HERE = os.path.dirname(os.path.dirname(os.path.abspath(__file__)))
BASE = "cd /repo && /venv/bin/python -m pytest -ra -q -p no:cacheprovider --timeout=900 --continue-on-collection-errors"
TB = ("CPython 3.12 semantics; the check's own reference model (plain ints / stdlib / independent decoder); "
      "bounds stated in level_claimed.text; ICU 73 shared libraries found by ./run")
CHECKS = {
 "C03": dict(cat="model_checking", tech="lock-step explicit-state BFS (closure to depth 2-3) of Duration/Instant/Offset operations against a Python-int reference model",
   text="A value alphabet derived from the code's own constants (unit sizes, 2^24/2^30/2^53/2^63 day and tick boundaries, range ends and one step beyond) is closed under every factory, "
        "operator and accessor to depth 2 (quick) / 3 (thorough); every result is compared with exact integer arithmetic, must be in normal form, and out-of-range model results must raise."
        " Scalars and amounts include the numeric-tower boundaries 2^31..2^1024, 10^400; static aliases are also called in keyword form with the documented parameter names.", ref="4/C03"),
 "C04": dict(cat="model_checking", tech="exhaustive walk of every zone's interval chain (a zone as a transition system) with per-interval and cross-query invariants",
   text="Every zone id is walked from the start of time: containment, abutment, maximality, wall = standard + savings, min/max bounds; every walked interval is re-queried at start, start+1ns, "
        "midpoint, end-1ns through the cached and the uncached zone. quick: precalculated part completely, recurring tail for a 400-year cycle plus years 9997-9999 and every 32-day cache period with "
        "two transitions; thorough: every zone to the end of time (about 1.84 M intervals), exhaustive."
        " Cache-order histories on fresh cached zones for every transition on a 32-day period edge (aliased period first, then the instants around the transition, both orders).", ref="4/C04"),
 "C05": dict(cat="model_checking", tech="exhaustive sweep over every transition x a local-time alphabet, oracle = brute force over the walked interval list",
   text="For every transition of every zone the local values around both sides (+-1 h, +-1 s, +-1 ns, gap/overlap middle, local midnights of neighbouring days) are mapped; count, instants, "
        "gap-adjacent intervals, strict/lenient resolvers, at_start_of_day and round trip instant->local->instants are compared with a brute-force evaluation over the interval list, in ISO and non-ISO calendars."
        " 810 synthetic user zones (offset grid x local time of day, one and two transitions) go through the same law set.", ref="4/C05"),
 "C06": dict(cat="model_checking", tech="exhaustive lock-step comparison of provider behaviour with an independent .nzd decoder and yearly-rule evaluator",
   text="models/nzdref.py decodes the bundled file bytes independently and models/tzrules.py evaluates the stored yearly rules with plain calendar arithmetic; ids, aliases, version, every precalculated "
        "period and every rule-generated tail transition (range as C04) must agree, for both real files; fixed-offset id grammar and near misses enumerated."
        " Every reference interval is also point-queried through the provider's cached zone (incl. a descending pass over busy cache periods); the fixed-id grid is repeated under 7 ambient cultures.", ref="4/C06"),
 "C07": dict(cat="model_checking", tech="bounded-exhaustive enumeration of pattern texts x culture classes x value alphabets with fixpoint and field-projection oracles",
   text="core/grammar.py enumerates every pattern of <= 2 (quick) / 3 (thorough) fields with all width variants and delimiter styles per type plus all standard patterns; values are built from the template so they "
        "are representable by construction; oracles: determinism, one-step fixpoint, exact recovery, built-in round-trip patterns on the full value alphabet, shared-pattern-object histories; all cultures for standard patterns."
        " Template calendars incl. Gregorian and built-ins under every calendar, extreme template values, synthetic cultures, fraction-digit sweeps, hash-colliding values formatted consecutively through one pattern object.", ref="4/C07"),
 "C08": dict(cat="model_checking", tech="bounded-exhaustive enumeration of pattern strings and single-edit mutations of input texts; oracle = result/exception type",
   text="All strings up to length 3 over a 30-character alphabet and structural strings up to length 5-6 are offered to every pattern factory (only InvalidPatternError may escape); for every created pattern, "
        "formatted values, every single-edit mutation, numeric-run replacements, empty and NUL texts are parsed: no exception may escape and success implies a valid value."
        " Plus extreme non-default templates, ill-formed composites (embedded + individual fields) that must be rejected or parse safely, format-string metacharacters as literals, synthetic cultures.", ref="4/C08"),
 "C09": dict(cat="model_checking", tech="lock-step exploration of date arithmetic and Period.between over all pairs / unit subsets of a boundary alphabet against a day-line and month-index model",
   text="Per calendar a date alphabet (range ends, leap/non-leap, cycle boundaries, month ends) x an amount alphabet (incl. the 300-day fast-path threshold and range-leaving amounts) is compared with models/periodref.py; "
        "Period.between for all pairs and all unit subsets (LocalDate 15, LocalDateTime up to 1023, LocalTime 63, YearMonth 3) is checked against the stated laws; normalize/to_duration/builder identities."
        " Plus the apply-period part (x + p, x - p and the static aliases for LocalDate/LocalDateTime/LocalTime vs a field-by-field model) and cross-calendar histories in one process.", ref="4/C09"),
 "C10": dict(cat="model_checking", tech="lock-step BFS of time-of-day / local date-time arithmetic against an integer (day, nanosecond-of-day) model",
   text="Times of day x signed amounts per unit (unit boundaries, +-1 around whole days, beyond 2^64, 1e15-1e30 days) x calendars; LocalTime wraps modulo 24 h, accessors decompose exactly, LocalDateTime.plus_<unit> and "
        "plus/minus(Period) equal the integer model with carry, out-of-range raises."
        " Amounts include (k*2^32+j) and (k*2^64+j) whole days and values beyond the int->str digit limit on every route.", ref="4/C10"),
 "C11": dict(cat="model_checking", tech="lock-step BFS (depth 2) of OffsetDateTime/OffsetDate/OffsetTime/ZonedDateTime operations against an (instant, offset, calendar, zone) integer model",
   text="13-19 base instants x 9-11 offsets x all 19 calendars, 105 operations, depth 2, canonical-state de-duplication; zoned values on 7 zones at real transitions; complete sweep of all 129,601 offsets through "
        "OffsetTime packing and with_offset day carries; every accessor, conversion route and difference compared with the model."
        " Plus ZonedClock histories (one clock moved forwards/backwards across transitions) and cross-calendar partners with equal field values for a - b.", ref="4/C11"),
 "C12": dict(cat="model_checking", tech="exhaustive pairs/triples over per-type value alphabets for the equality/hash/order algebra + all call sequences of length <= 2 for immutability",
   text="17 public value types, alphabets of 14-20 values: all ordered pairs and all triples are checked against a (component key, timeline order, calendar group) model, foreign-type comparisons refused; "
        "every sequence of <= 2 public calls (introspected surface, typed argument pools) must leave a deep snapshot of every operand unchanged."
        " Fixed zones keyed by (offset, id, name) from the tz database, augmented-assignment and reflected operator routes with aliasing snapshots, iterator-protocol laws.", ref="4/C12"),
 "C13": dict(cat="model_checking", tech="explicit-state exploration of all query histories up to depth 3-4 on colliding cache keys + preemption-bounded schedule exploration (line and opcode granularity) of real threads",
   text="Histories: year-start caches of all 19 calendars (aliasing years), the 512-slot zone-interval cache (periods 512 apart, multi-transition periods), _Cache at size 2/3, the format-info cache cycled through all cultures, "
        "provider lookups and calendar routes - oracle is the same query asked first on a fresh cache. Schedules: 23 two-thread harnesses on shared caches and lazy singletons, every schedule within 1-2 preemptions."
        " Histories also interpose public rejected operations (years 2^17 apart), use an aliasing custom provider source, fixed-zone tables and sibling pattern texts through the cached culture; schedules include warm-cache variants, generic pairs of pure queries on shared objects (whole-library tracing in thorough), post-race sequential probing, and first use in fresh interpreters.", ref="4/C13"),
 "C14": dict(cat="model_checking", tech="exhaustive sweep of each codec primitive's domain + composite values + byte-identical re-encoding of all rule-based zones",
   text="Counts, signed counts, milliseconds (boundary classes in quick, all 172.8 M values in thorough), all 129,601 offsets, transition/previous pairs over every encoding class limit, strings, dictionaries, "
        "yearly rules (full product), recurrences, maps and zones: read(write(v)) == v, exact byte consumption, documented minimal encoding length; all 724 zones of the two real files re-encode to their original bytes."
        " Reader side also over short-read streams and all reader call histories of length <= 3-4 against a cursor model.", ref="4/C14"),
 "C15": dict(cat="model_checking", tech="exhaustive sweep against the standard library (all dates, all seconds of a day, boundary products for datetimes/timedeltas/offsets)",
   text="All 3,652,059 dates both ways; all 86,400 seconds x microsecond alphabet; boundary dates x boundary times x all whole-minute offsets in +-18 h for naive/aware datetimes; timedelta boundaries; "
        "pyoda->stdlib for boundary values in every calendar with truncation toward the start of time and raising outside the stdlib range."
        " A slice is repeated under ambient TZ settings (JST-9, EST5EDT) in worker processes; sub-second tz offsets included.", ref="4/C15"),
 "C16": dict(cat="model_checking", tech="exhaustive sweep of week-year rules x calendars x year-boundary windows against round-trip laws, isocalendar and brute-force weekday scans",
   text="71 rules x all years: dates within +-10 days of every year boundary round-trip through (week-year, week, weekday), week numbers within range and stepping on the rule's first day; ISO rule vs datetime.isocalendar "
        "for every date of years 1-9999; next/previous and n-th-weekday constructors vs brute-force scans. quick: ISO calendar all rules, other calendars 3 rules; thorough: all."
        " A long-history pass keeps one rule object per rule over 2600 distinct week-years.", ref="4/C16"),
 "C17": dict(cat="model_checking", tech="exhaustive sweep of ISO pattern output/input against datetime.isoformat/fromisoformat and a shape grammar",
   text="All 3.65 M dates, all 86,400 seconds x fraction alphabet, boundary date-times and instants, all whole-minute offsets: stdlib reads pyoda's text to the same value and pyoda parses stdlib's text; padding/fraction/Z shape rules."
        " All ISO built-ins are found by introspection with measured capability; all 1,000,000 microsecond fractions and dense nanosecond sets; years <= 0 for every date-bearing pattern; ambient culture x every to-string route; hash-colliding consecutive values.", ref="4/C17"),
 "C18": dict(cat="model_checking", tech="exhaustive pairs of intervals over small universes against Python set semantics",
   text="Per calendar four 7-day universes (mid-range, year boundary, range ends): all 28 intervals and all 784 ordered pairs - length, iteration, membership, containment, intersection, union vs set operations; "
        "Interval over an extended-instant alphabet incl. unbounded ends; constructor rejections."
        " Plus cross-calendar histories in one process and clone routes (copy, deepcopy, pickle 2-5) with the full observation set.", ref="4/C18"),
 "C20": dict(cat="fault_enumeration", tech="exhaustive enumeration of fault operators (truncate / substitute / insert / delete, k<=4 tuples in framing windows) over the two real database files with a watchdog",
   text="Every faulted stream is loaded with the real loader under a time and memory watchdog, ids listed and affected zones fetched; any outcome other than success or InvalidPyodaDataError (or the documented "
        "source error) is a violation keyed by call, exception type and innermost function. quick: position sets covering header, framing, every field boundary, small fields completely; thorough: every truncation point and every byte."
        " Role-aware substitute values for rule bytes, value-level id-map mutations (re-pointing, 2- and 3-cycles) and token substitution on id strings of the pool.", ref="4/C20"),

 "C01": dict(cat="model_checking", tech="exhaustive walk of the calendar transition system (state = calendar x day number) with counted structure invariants",
   text="The calendar is a chain-shaped transition system; every state walked is converted day->date->day, through the public constructor, through ISO and back "
        "(independent ISO date from datetime/civil-from-days), ordered against its predecessor, and month/year structure is counted along the walk. quick: month tables of "
        "every year of all 19 calendars (complete), complete walk of Badi and Um Al Qura, boundary blocks and one seed-positioned 30000-day block per calendar, all "
        "rejection cases per year; thorough: the complete chain of every calendar (about 70.8 M states), exhaustive."
        " Also: every month end through the era/year-of-era constructor route, the calendar-less Instant->UTC->date route for ISO, and the year tables recomputed in three visiting orders (descending, by cache slot, ascending) inside one process.", ref="4/C01"),
 "C02": dict(cat="model_checking", tech="exhaustive lock-step sweep against an independent implementation of the published calendar algorithms and datetime.date",
   text="Every year and month of the 16 arithmetic calendar ids is compared with models/calref.py (independent fixed-day formulas: year start, leap flag, length, month starts/ends, "
        "weekday); ISO is compared with datetime.date over all 3,652,059 ordinals in both directions; day-level lock-step walk on boundary blocks + one seed block (quick) or every day (thorough)."
        " The era construction route is compared with reference era arithmetic for every month end.", ref="4/C02"),
 "C19": dict(cat="model_checking", tech="explicit-state exploration of all operation sequences vs. reference model + preemption-bounded schedule exploration of real threads",
   text="Every FakeClock operation sequence up to depth 3 (quick) / 4 (thorough) over a 26-30 symbol alphabet is replayed on the real object "
        "and compared step by step with a now/auto-advance integer model; every schedule of 2-3 real threads x 1-2 operations within 2 preemptions "
        "(opcode granularity, cooperative ModelLock, deadlock detection) must terminate, give a sequentially explainable outcome and no duplicate reads; "
        "ZonedClock getters x zones x calendars and SystemClock behind a time_ns seam."
        " ZonedClock histories on one object (all <= 2-3 step movement sequences across real transitions), sequences started from a non-zero auto-advance, operations after a raising operation must still complete (lock-timeout guard), three-thread read|reset|read.", ref="4/C19"),
}
# round-4 additions, appended to the level texts
R4 = {
 "C01": " Every Era constant a calendar does not list must be refused on every era-taking route.",
 "C03": " Aware datetimes with sub-second UTC offsets through Instant.from_aware_datetime against the exact integer.",
 "C04": " Route histories (get_utc_offset as the first question to a period whose slot holds an aliased period), 60 user zones (1-6 transitions inside/across one cache period; stored periods + rule tails joined mid-season) against the rule evaluator, and in the thorough tier one cached zone object asked for all 114,116 periods of years 1-9999 ascending then descending.",
 "C05": " The same 60 user zones, raw and cached, through the complete law set.",
 "C07": " Template values in the BCE era of each two-era calendar; standard letters inside embedded patterns; a failing call interposed between formats.",
 "C08": " Standard pattern letters inside embedded ld<>/lt<> patterns.",
 "C10": " Cancelling huge components for every ordered pair of units (K = 2^31, 2^40, 2^64 days' worth) and year+month periods on every month end of a leap year and its successor, all calendars, all routes.",
 "C11": " ZonedDateTime(local, zone, offset) for locals inside and around every gap/overlap x 5 offsets.",
 "C12": " Numeric type of the argument (int vs integral float) on every float-taking factory with a representation oracle: equal values keep the same numeric types on their stored attributes.",
 "C13": " Round 4: int-form enum arguments as the first creation of Hebrew/Islamic calendars with a behaviour probe, histories of read-only questions to a TzdbDateTimeZoneSource (depth 2-3, 28 questions), ABA-ordered pairs with three preemptions on small functions, objects warmed to capacity boundaries (2^k-2..2^k, 600 patterns) before the race, two independent codec writers at once.",
 "C15": " Sub-second UTC offsets on every from-aware route; histories of 2-3 arguments that are ==/hash-equal as stdlib values but not the same conversion.",
 "C16": " Weekday arguments as enum member, int(member) and IntEnum-arithmetic int on every weekday-taking route; rule factories with int first day of week.",
 "C17": " Sequences with a failing call interposed (format/parse that raises after writing) between two formats on one thread.",
 "C19": " Reset targets on local day boundaries of each zone; SystemClock read by two threads with equal OS readings after a different earlier reading.",
 "C20": " Value-level faults of zone fields with the framing fixed up (transition instants replaced by the start/end-of-time markers, equal/earlier instants, tail flag toggled, counts +-1) and non-minimal varint re-encodings.",
}
R5 = {
 "C01": " LocalDate.max/min must follow the day line on every walked pair and every month boundary.",
 "C02": " Every named route to a calendar (static accessors, Hebrew/Islamic factories with every argument combination) must hand out the documented calendar object.",
 "C03": " Date-dependent tzinfo objects (zoneinfo zones around every transition with both folds, a user-defined tzinfo) through Instant.from_aware_datetime; inexact float arguments (tiny magnitudes, negative non-dyadic values) with normal-form / sign-symmetry / one-rounding-error laws. Offset.from_timedelta at whole seconds +- 1 us / +- 999999 us (every 7th second of the range in the quick tier, every second in the thorough tier; truncation toward zero, range judged on the exact value).",
 "C04": " Cache-order histories with the following / previous / +-512-period slot first for every transition on a period edge, and for every interval longer than 512 periods.",
 "C05": " 72 whole-day-skip user zones on month ends of several calendars checked in all 19 calendars; gaps of 24h40m / 26 h / 36 h swept at 10-minute steps with a local-value law for lenient results.",
 "C06": " A reduced set of the same cache-order histories judged against the independent decoder.",
 "C07": " with_* configuration chains in every order (<= 3 calls) against a sequential configuration model; the value's own format()/__format__/str.format route incl. whitespace-edged pattern texts.",
 "C08": " Every culture's names containing non-alphanumeric characters (own text, case variants, each special character replaced); all interleavings of two composite builders' construct/add/build calls.",
 "C09": " The DateAdjusters.add_period routes (LocalDate, LocalDateTime, OffsetDate, OffsetDateTime) for every (date, period) pair of the apply-period part.",
 "C11": " Fixed zones with their own ids (tz database and user-made) with zone identity compared after every operation; at_start_of_day for non-ISO dates around every transition incl. midnight gaps.",
 "C12": " Clone routes incl. pickling into another interpreter process and back (equality, hash, dict/set interchangeability, observations, internal representation).",
 "C13": " Round 5: histories of culture-name spellings, reads interleaved with property writes on a mutable culture, consecutive questions to different week-year rule objects, every year asked cold (caches emptied) against a warm ascending pass, fixed-zone histories under ambient cultures with a culture-independent id oracle and provider round trip, provider warm for another id, concurrent pattern creation, first-use exploration in fresh interpreters that discovers lazily filled module/class-level containers and schedules inside their files (date adjusters, time-unit arithmetic, stdlib bridges, text formatting, week-year rules in the quick tier).",
 "C14": " Writer call histories with pool-owner operations interposed against a list model; synthetic zones with equal neighbouring periods.",
 "C15": " Date-dependent tzinfo objects on every from-aware route; sequences sharing one tzinfo object with different offsets.",
 "C19": " Thread schedules in which a thread changes something and then resets the clock to the very Instant object it was built with (ABA); the IClock conveniences applied to a ZonedClock.",
 "C20": " Value-level faults on the non-zone fields (string pool, version, id map, Windows mapping, zone locations) with field lengths recomputed.",
}
ENVP = (" Thorough tier: the complete quick exploration is additionally repeated in child interpreters under python -O (assertions stripped), under an ambient decimal context "
        "(prec=6, ROUND_UP) and under another PYTHONHASHSEED, against the same oracle (environment passes; VERIF_ENV_PASSES=1 runs them in the quick tier too).")
for _k, _c in CHECKS.items():
    _c["text"] = _c["text"] + R4.get(_k, "") + R5.get(_k, "") + ENVP
READY = set("C01 C02 C03 C04 C05 C06 C07 C08 C09 C10 C11 C12 C13 C14 C15 C16 C17 C18 C19 C20".split())
NOT_YET = "check not built yet in this session (planned, see DESIGN.md section 4)"
def main():
    props = [json.loads(l) for l in open(os.path.join(HERE, "properties.jsonl"))]
    checks, na = [], []
    for p in props:
        pid = p["id"]
        c = CHECKS.get(pid)
        if not c or pid not in READY or not os.path.exists(os.path.join(HERE, "vf", "checks", pid.lower() + ".py")):
            na.append({"property_id": pid, "reason": (c or {}).get("na", NOT_YET)})
            continue
        checks.append({
            "property_id": pid,
            "quick_cmd": "./run %s --tier quick" % pid,
            "thorough_cmd": "./run %s --tier thorough" % pid,
            "evidence_file": "evidence/%s.json" % pid,
            "replay_cmd_template": "./run %s --replay {path}" % pid,
            "engine": c.get("engine", "vf"),
            "level_claimed": {"category": c["cat"], "text": c["text"], "design_ref": "DESIGN.md " + c["ref"]},
            "level_note": c.get("note", TB),
            "technique": c["tech"],
        })
    hooks = []
    m = {
        "version": 1,
        "setup_cmd": "chmod +x ./run && ./run selfcheck",
        "hooks": {"guard": "PYODA_TIME_VERIF", "enable": "no source hooks are needed: checks import /repo's working tree directly through ./run (sets PYODA_TIME_VERIF=1, unused by the library)",
                  "baseline_off_cmd": BASE, "source_commits": hooks, "add_only": True},
        "engines": [
            {"name": "vf", "path": "vf/", "serves_properties": [c["property_id"] for c in checks],
             "kind_free_text": "hand-written explicit-state explorers driving the real Python code: exhaustive sweeps, lock-step BFS against reference models, preemption-bounded thread scheduler (sys.settrace + cooperative locks), byte-stream fault enumerator"}],
        "checks": checks,
        "not_applicable": na,
        "notes": "All checks run the implementation imported from /repo's working tree (VERIF_REPO overrides). Known findings: known_findings.json. See DESIGN.md.",
    }
    with open(os.path.join(HERE, "MANIFEST.json"), "w") as f:
        json.dump(m, f, indent=1)
    print("claimed:", [c["property_id"] for c in checks], "not_applicable:", len(na))
if __name__ == "__main__":
    main()
